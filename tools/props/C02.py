"""C02 — results do not depend on how the input bytes reach the searcher."""
import vlib
from vlib import parse_val, vlist, vbytes
import searchgen as sg

NEED_RG = True
MANIFEST = dict(
    text="Coq theorems (Props/C02.v): reader_eq_ref — ReadByLine::run over the roll buffer delivers exactly the events of the grep "
         "reference for every input, configuration (context sizes, invert, passthru, line numbers, stop-on-nonmatch, any "
         "terminator), matcher meeting the find_by_line_fast / candidate-line contract, buffer capacity >= 0 and every "
         "failure-free read history (1-byte reads included): the simulation of C03 carried across Core::roll (re-basing of "
         "offsets, line numbers, dropped context) and LineBuffer::fill/roll/ensure_capacity/consume; reader_eq_slice(_complete): "
         "hence the same events as SliceByLine::run, and the same run_result (final byte count too) whenever the search is not cut "
         "short by stop-on-nonmatch; reader_eq_ref_any_policy (heap limit: equal or allocation error); "
         "search_history_independent / search_state_independent / strategy_independent_events (Model/SearcherGlue.v: one Searcher "
         "reused for a list of sources — slice, reader, file with or without memory map — keeps only its roll buffer and "
         "multi-line buffer; every search returns what a fresh Searcher returns, whatever was searched before; D22 found by this "
         "proof and repaired); line_buffer_fill_is_stream_window (the buffer is a window of the stream for every history/capacity/policy, fill never "
         "stuck); multiline_flag_irrelevant. D8 (byte count of an early-ended reader search) is proved to be the only difference "
         "(n <= reference count; witness early_end_byte_count_witness) and is a known finding. Tie to the code on every run: "
         "model = code on the real roll buffer fed through a hook with scripted read histories (capacities 1..65, both growth "
         "policies, sink stops), sequences of searches by one real Searcher (kind 206) = model = fresh Searcher, reader events = slice events = reference, the public search_reader, rg --mmap/--no-mmap/stdin. "
         "D10 fixed.",
    note="memory maps are searched as slices (mmap.rs only chooses the strategy; CLI comparison); binary detection off as the "
         "property says; failing reads are C16's theorems; trusted: Coq kernel, extraction, driver, harness, hooks "
         "verif_search_reader_raw/verif_buffer_capacity",
    technique="Coq simulation proof (reader = grep reference = slice, all histories and capacities) + extracted-model/implementation correspondence + cross-strategy oracle",
    design="§7 C02, notes/C02.md")
KNOWN_D8 = "EarlyEndByteCount"


def gen_hist(rng, n_bytes, cap):
    mode = rng.choice(["default", "one", "const", "random", "line"])
    if mode == "default":
        return []
    if mode == "one":
        return [(0, 1)] * (n_bytes + 2)
    if mode == "const":
        k = rng.randint(1, 7)
        return [(0, k)] * (n_bytes + 2)
    return [(0, rng.randint(1, 9)) for _ in range(n_bytes + 2)]


def hist_val(h):
    return vlist([vlist([str(x) for x in e]) for e in h])


def reader_line(case, reply, cap, pol, hist):
    r = "()" if reply is None else vlist([str(reply[0]), str(reply[1])])
    p = "()" if pol is None else vlist([str(pol)])
    return vlist([sg.cfg_val(case["cfg"]), sg.matcher_val(case["needles"], case["confirm"], case["lt_mode"]),
                  vbytes(case["input"]), r, str(cap), p, hist_val(hist)])


def split(out):
    v = parse_val(out)
    if v[0] == 9:
        return None
    evs = v[1]
    fin = evs[-1] if evs and evs[-1][0] == 5 else None
    body = evs[:-1] if fin is not None else evs
    return v[0], body, fin


def run(ctx):
    rng = ctx.rng
    n = ctx.count(4000)
    cases, rlines, slines, meta = [], [], [], []
    reg = [c for c in sg.regress_cases() for _ in range(3)]
    for i in range(n + len(reg)):
        c = reg[i] if i < len(reg) else sg.gen_case(rng)
        cap = rng.choice([1, 1, 2, 3, 4, 5, 7, 8, 13, 16, 40, 64, 65])
        pol = None if rng.random() < 0.8 else rng.choice([0, 1, 2, 4, 8, 30])
        hist = gen_hist(rng, len(c["input"]), cap)
        reply = None
        if rng.random() < 0.25:
            reply = (rng.randint(0, 8), 1)
        cases.append(c)
        meta.append((cap, pol, hist, reply))
        rlines.append(reader_line(c, reply, cap, pol, hist))
        slines.append(sg.case_val(c, reply))
    rc = vlib.code(201, rlines)      # roll buffer fed directly by the scripted reader (hook)
    rm = vlib.model(201, rlines)
    rd = vlib.code(202, rlines)      # the public search_reader (transcoding reader in between)
    sc = vlib.code(301, slines)
    # a Searcher is reused for every file of a walk: the second search must not depend on the first
    tidx = list(range(0, len(rlines), 4))
    tw = vlib.code(203, [rlines[i] for i in tidx])
    for i, t in zip(tidx, tw):
        if t != rd[i]:
            a, b = split(t), split(rd[i])
            early = cases[i]["cfg"]["stop_on_nonmatch"] or meta[i][3] is not None
            if a is not None and b is not None and (a[0], a[1]) == (b[0], b[1]) and early:
                # only the byte count of an early-ended search differs (the reused buffer has another capacity): D8
                ctx.known(KNOWN_D8, "reused searcher: case=%r fresh finish=%r reused finish=%r" % (sg.describe(cases[i]), b[2], a[2]))
            else:
                ctx.violation("the second search_reader of a reused Searcher differs from the search by a fresh Searcher",
                              dict(kind=203, line=rlines[i], case=sg.describe(cases[i]), fresh=rd[i], reused=t))
    stats = dict(alloc_error=0, early_end=0, rolled=0, grew=0, stopped=0)
    for case, (cap, pol, hist, reply), rl, sl, c, m, s, d in zip(cases, meta, rlines, slines, rc, rm, sc, rd):
        # the public entry point sees another fragmentation (the decoder's); only the byte count of an
        # early-ended search may differ from the raw run (known finding D8)
        dd, cc = split(d), split(c)
        if dd is not None and cc is not None and (dd[0], dd[1]) != (cc[0], cc[1]) and not (cc[0] == 1 or dd[0] == 1):
            ctx.violation("search_reader (public) and the raw roll-buffer run deliver different events",
                          dict(kind=202, line=rl, case=sg.describe(case), cap=cap, pol=pol, raw=c, public=d))
        ctx.note_case(rl, len(case["input"]) > cap)
        if len(case["input"]) > cap:
            stats["rolled"] += 1
        if c != m:
            ctx.violation("search_reader: model and code disagree",
                          dict(kind=201, line=rl, case=sg.describe(case), cap=cap, pol=pol, hist=hist[:12], reply=reply,
                               model=m, code=c, slice=s), nfi=True)
        r = split(c)
        sl_ = split(s)
        if r is None or sl_ is None:
            continue
        rst, rbody, rfin = r
        sst, sbody, sfin = sl_
        if rst == 1 and rfin is None:
            # allocation error (heap limit too small): events must be a prefix of the slice run's
            stats["alloc_error"] += 1
            if rbody != sbody[:len(rbody)]:
                ctx.violation("reader with insufficient heap limit delivered events that are not a prefix of the slice run",
                              dict(kind=201, line=rl, case=sg.describe(case), cap=cap, pol=pol, code=c, slice=s))
            continue
        if reply is not None:
            stats["stopped"] += 1
        if rbody != sbody or rst != sst:
            ctx.violation("search_reader and search_slice deliver different results for the same input",
                          dict(kind=201, line=rl, case=sg.describe(case), cap=cap, pol=pol, hist=hist[:12], reply=reply,
                               code=c, slice=s))
        elif rfin is not None and sfin is not None and rfin != sfin:
            stop_effective = reply is not None and reply[0] <= len(sbody)
            # with stop-on-nonmatch the rule may have fired on the last line (count = length, yet an early end)
            complete = sfin[1] == len(case["input"]) and not stop_effective and not case["cfg"]["stop_on_nonmatch"]
            if complete:
                ctx.violation("search_reader and search_slice report different byte counts for a completed search",
                              dict(kind=201, line=rl, case=sg.describe(case), cap=cap, pol=pol, code=c, slice=s))
            else:
                stats["early_end"] += 1
                ctx.known(KNOWN_D8, "case=%r reader finish=%r slice finish=%r" % (sg.describe(case), rfin, sfin))
    ctx.sample(dict(case=sg.describe(cases[0]), cap=meta[0][0], hist=meta[0][2][:8], reader=rc[0], slice=sc[0]))
    ctx.cov["stats"] = stats
    ctx.cov["rule"] = ("searcher case x buffer capacity 1..65 x growth policy (eager / Error(extra)) x read history "
                       "(default, 1-byte, constant, random) x optional sink stop; non-trivial = input longer than the "
                       "buffer capacity (forces rolling/growth)")
    sequences(ctx)
    cli(ctx)


def sequences(ctx):
    """kind 206: ONE Searcher searches several sources one after the other (slice, reader, file with and without a
    memory map); model (Model/SearcherGlue.v search_seq) = code, and every result equals what a fresh Searcher
    delivers for that source (theorem search_history_independent) — only the byte count of an early-ended reader
    search may depend on the history (D8: the capacity grown by earlier searches)."""
    rng = ctx.rng
    n = ctx.count(500)
    lines, metas = [], []
    for i in range(n):
        base = sg.gen_case(rng, multi_line=(rng.random() < 0.3))
        if base["cfg"]["multi_line"]:
            # needles of multi-line cases may span the terminator: the matcher must then not advertise that it never
            # matches it (lt_mode 1/2 would select the line strategy with a matcher that breaks its own contract)
            base["lt_mode"] = 0
        cap = rng.choice([1, 2, 3, 5, 8, 16, 64])
        srcs = []
        for _ in range(rng.randint(2, 4)):
            inp = sg.gen_input(rng, base["cfg"]) if rng.random() < 0.8 else base["input"]
            tag = rng.choice([0, 1, 1, 2, 3])
            hist = gen_hist(rng, len(inp), cap) if tag == 1 else []
            srcs.append((tag, inp, hist))
        sv = vlist([vlist([str(t), vbytes(b), hist_val(h), "()"]) for t, b, h in srcs])
        lines.append(vlist([sg.cfg_val(base["cfg"]), sg.matcher_val(base["needles"], base["confirm"], base["lt_mode"]), str(cap), sv]))
        metas.append((base, cap, srcs))
    co = vlib.code(206, lines)
    mo = vlib.model(206, lines)
    # fresh Searcher per source, through the same harness entry point
    fresh_lines = []
    for base, cap, srcs in metas:
        for t, b, h in srcs:
            fresh_lines.append(vlist([sg.cfg_val(base["cfg"]), sg.matcher_val(base["needles"], base["confirm"], base["lt_mode"]), str(cap),
                                      vlist([vlist([str(t), vbytes(b), hist_val(h), "()"])])]))
    fo = vlib.code(206, fresh_lines)
    k = 0
    nseq = 0
    for (base, cap, srcs), line, c, m in zip(metas, lines, co, mo):
        cv = parse_val(c) if c.startswith("(") else None
        mv = parse_val(m) if m.startswith("(") else None
        if cv is None or mv is None:
            ctx.violation("sequence harness/model failure: %s / %s" % (c[:100], m[:100]), dict(kind=206, line=line))
            k += len(srcs)
            continue
        nseq += 1
        ctx.note_case(line, True)
        for j, (t, b, h) in enumerate(srcs):
            fv = parse_val(fo[k])[0] if fo[k].startswith("(") else None
            k += 1
            early = base["cfg"]["stop_on_nonmatch"]

            def same_but_count(x, y):
                return (x is not None and y is not None and x[0] == y[0] and len(x) > 1 and len(y) > 1 and len(x[1]) == len(y[1])
                        and x[1][:-1] == y[1][:-1] and x[1] and x[1][-1][0] == 5 and y[1][-1][0] == 5)
            if cv[j] != mv[j]:
                if early and same_but_count(cv[j], mv[j]) and t in (1, 3):
                    ctx.known(KNOWN_D8, "sequence: source %d of %r: model finish=%r code finish=%r" % (j, sg.describe(base), mv[j][1][-1], cv[j][1][-1]))
                else:
                    ctx.violation("a Searcher searching several sources in a row: model and code disagree on source %d" % j,
                                  dict(kind=206, line=line, case=sg.describe(base), cap=cap, sources=[(t_, b_.decode("latin1"), h_[:8]) for t_, b_, h_ in srcs],
                                       model=repr(mv[j]), code=repr(cv[j])), nfi=(fv == cv[j]))
            if fv != cv[j]:
                if early and same_but_count(cv[j], fv) and t in (1, 3):
                    ctx.known(KNOWN_D8, "sequence: source %d of %r: fresh finish=%r reused finish=%r" % (j, sg.describe(base), fv[1][-1], cv[j][1][-1]))
                else:
                    ctx.violation("the result of a search depends on what the same Searcher searched before (source %d of the sequence)" % j,
                                  dict(kind=206, line=line, case=sg.describe(base), cap=cap, sources=[(t_, b_.decode("latin1"), h_[:8]) for t_, b_, h_ in srcs],
                                       fresh=repr(fv), reused=repr(cv[j])))
    ctx.cov["searcher_sequences"] = nseq


def cli(ctx):
    """rg --mmap vs --no-mmap vs stdin on generated files"""
    import os
    import subprocess
    import tempfile
    rng = ctx.rng
    n = ctx.count(40)
    runs = 0
    with tempfile.TemporaryDirectory(dir=vlib.CACHE) as d:
        for i in range(n):
            lines = [bytes(rng.choice(b"ab x") for _ in range(rng.randint(0, 5))) for _ in range(rng.randint(1, 9))]
            data = b"\n".join(lines) + (b"\n" if rng.random() < 0.8 else b"")
            # a byte-order mark makes every strategy go through the transcoder (mmap and slices via slice_has_bom)
            enc = rng.choice([None, None, "utf-16le", "utf-16be", "utf-8-bom"]) if i % 2 else ["utf-16be", "utf-16le", "utf-8-bom", None][(i // 2) % 4]
            text = data.decode("ascii")
            cjk = enc in ("utf-16le", "utf-16be") and rng.random() < 0.6
            if cjk:
                # decoded UTF-8 longer than the UTF-16 file: the heap-read path must not size its read by the file length
                more = ["\u4e2d\u6587\u5b57\u7b26\u4e32\u6f22\u5b57 " * rng.randint(2, 8) + rng.choice(["a", "ab", "x b"]) for _ in range(rng.randint(20, 50))]
                text = "\n".join(more) + "\n" + text
                data = text.encode("utf-8")
            if enc == "utf-16le":
                data = b"\xff\xfe" + text.encode("utf-16le")
            elif enc == "utf-16be":
                data = b"\xfe\xff" + text.encode("utf-16be")
            elif enc == "utf-8-bom":
                data = b"\xef\xbb\xbf" + data
            f = os.path.join(d, "f%d" % i)
            open(f, "wb").write(data)
            flags = ["-n", "-b"]
            if rng.random() < 0.5:
                flags += ["-A", str(rng.randint(0, 2)), "-B", str(rng.randint(0, 2))]
            if rng.random() < 0.3:
                flags.append("-v")
            if rng.random() < 0.2:
                flags.append("--stop-on-nonmatch")
            if rng.random() < 0.2:
                flags.append("-U")
            if enc is not None and rng.random() < 0.3:
                # no transcoding, no mark stripping: the raw bytes, whatever the strategy; raw UTF-16 is full of NUL
                # bytes, and binary detection is outside this property (C14), so it is switched off with -a
                flags += ["-E", "none", "-a"]
            pat = rng.choice(["a", "b", "ab", "x$", "^a", "a|b"])
            if "-U" in flags or (cjk and rng.random() < 0.7):
                if "-U" not in flags:
                    flags.append("-U")
                pat = rng.choice(["a\\n", "\\n", "b\\n", "a", "\\s+\\n"])     # mostly patterns that select the multi-line strategy
            base = [vlib.RG, "--no-config", "--color", "never", "--no-heading", "-H"] + flags + ["-e", pat]
            outs = []
            for mode in ("--mmap", "--no-mmap"):
                p = subprocess.run(base + [mode, f], stdin=subprocess.DEVNULL, stdout=subprocess.PIPE, stderr=subprocess.PIPE)
                outs.append((p.returncode, p.stdout))
            p = subprocess.run(base + ["-"], stdin=open(f, "rb"), stdout=subprocess.PIPE, stderr=subprocess.PIPE)
            outs.append((p.returncode, p.stdout.replace(b"<stdin>", f.encode())))
            runs += 3
            if not (outs[0] == outs[1] == outs[2]):
                ctx.violation("rg --mmap / --no-mmap / stdin print different results",
                              dict(kind="cli", flags=flags, pattern=pat, encoding=enc, data=repr(data), outs=[repr(o) for o in outs]))
    # an input much larger than the 64 KiB buffers, and a pattern anchored at the start of the haystack (in line mode every
    # line is its own haystack, whatever window of the file a strategy happens to hold)
    big = os.path.join(vlib.CACHE, "c02_big_%d" % os.getpid())
    with open(big, "wb") as fh:
        for k in range(40000):
            fh.write(b"%05d\n" % k if k % 3 else b"x%04d\n" % k)
    try:
        for pat in ("\\A[0-9]+", "\\A[0-9]+$", "[0-9]+\\z"):
            base = [vlib.RG, "--no-config", "--color", "never", "-c", "-I", "-e", pat]
            outs = []
            for mode in ("--mmap", "--no-mmap"):
                p = subprocess.run(base + [mode, big], stdin=subprocess.DEVNULL, stdout=subprocess.PIPE, stderr=subprocess.PIPE)
                outs.append((p.returncode, p.stdout))
            p = subprocess.run(base + ["-"], stdin=open(big, "rb"), stdout=subprocess.PIPE, stderr=subprocess.PIPE)
            outs.append((p.returncode, p.stdout))
            runs += 3
            if not (outs[0] == outs[1] == outs[2]):
                ctx.violation("a 230 KB file searched for a haystack-anchored pattern gives different counts through --mmap / --no-mmap / stdin",
                              dict(kind="cli-big", pattern=pat, outs=[repr(o) for o in outs]))
    finally:
        os.remove(big)
    # files whose stat() size says nothing about their content (procfs): by path (mmap or not) and through stdin
    for pf, pat in (("/proc/version", "Linux"), ("/proc/filesystems", "proc"), ("/proc/self/status", "Name")):
        try:
            content = open(pf, "rb").read()
        except OSError:
            continue
        if not content or os.stat(pf).st_size != 0:
            continue
        base = [vlib.RG, "--no-config", "--color", "never", "--no-heading", "-N", "-I", "-e", pat]
        outs = []
        for mode in ("--mmap", "--no-mmap"):
            p = subprocess.run(base + [mode, pf], stdin=subprocess.DEVNULL, stdout=subprocess.PIPE, stderr=subprocess.PIPE)
            outs.append((p.returncode, p.stdout))
        p = subprocess.run(base + ["-"], input=content, stdout=subprocess.PIPE, stderr=subprocess.PIPE)
        outs.append((p.returncode, p.stdout))
        runs += 3
        if pf != "/proc/self/status" and not (outs[0] == outs[1] == outs[2]):
            ctx.violation("a file whose stat size is 0 but which has content gives different results by path and through stdin",
                          dict(kind="cli-procfs", file=pf, pattern=pat, outs=[repr(o) for o in outs]))
        if pf == "/proc/self/status" and not (outs[0][0] == outs[1][0] == 0):
            ctx.violation("a procfs file with content is not searched when named by path",
                          dict(kind="cli-procfs", file=pf, pattern=pat, outs=[repr(o) for o in outs]))
    ctx.cov["cli_runs"] = runs


def replay(ctx, data):
    r = data["replay"]
    if r.get("kind") == 201:
        c = vlib.code(201, [r["line"]])[0]
        m = vlib.model(201, [r["line"]])[0]
        print("code :", c, "\nmodel:", m, "\nslice:", r.get("slice"))
        if c != m:
            ctx.violation("replayed case: model and code still disagree", r)



# ----------------------------------------------------------------------------------------------- source tie (DESIGN §4.2)
# the definitions of Gen/DecisionsLib.v this property's Props file ties to the model (`*_generated_eq_model`): when
# tools/gen/decisions_lib.py could not translate the current source text the tie is broken and reported
GEN_LIB_TARGETS = ['max_context', 'multi_line_with_matcher', 'slice_needs_transcoding']
_run_checks = run


def run(ctx):
    _run_checks(ctx)
    vlib.report_gen_drift(ctx, "decisions_lib", GEN_LIB_TARGETS, bool(ctx.violations))
