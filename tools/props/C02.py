"""C02 — results do not depend on how the input bytes reach the searcher."""
import vlib
from vlib import parse_val, vlist, vbytes
import searchgen as sg

NEED_RG = True
MANIFEST = dict(
    text="Coq theorems (Props/C02.v): reader_eq_ref — ReadByLine::run over the roll buffer delivers exactly the events of the grep "
         "reference for every input, configuration (context sizes, invert, passthru, line numbers, stop-on-nonmatch, any "
         "terminator), matcher meeting the find_by_line_fast / candidate-line contract, buffer capacity >= 0 and every "
         "failure-free read history (1-byte reads included): the simulation of C03 carried across Core::roll (re-basing of "
         "offsets, line numbers, dropped context) and LineBuffer::fill/roll/ensure_capacity/consume; reader_eq_slice(_complete): "
         "hence the same events as SliceByLine::run, and the same run_result (final byte count too) whenever the search is not cut "
         "short by stop-on-nonmatch; reader_eq_ref_any_policy (heap limit: equal or allocation error); "
         "search_history_independent / search_state_independent / strategy_independent_events (Model/SearcherGlue.v: one Searcher "
         "reused for a list of sources — slice, reader, file with or without memory map — keeps only its roll buffer and "
         "multi-line buffer; every search returns what a fresh Searcher returns, whatever was searched before; D22 found by this "
         "proof and repaired); line_buffer_fill_is_stream_window (the buffer is a window of the stream for every history/capacity/policy, fill never "
         "stuck); multiline_flag_irrelevant. D8 (byte count of an early-ended reader search) is proved to be the only difference "
         "(n <= reference count; witness early_end_byte_count_witness) and is a known finding. Tie to the code on every run: "
         "model = code on the real roll buffer fed through a hook with scripted read histories (capacities 1..65, both growth "
         "policies, sink stops), sequences of searches by one real Searcher (kind 206) = model = fresh Searcher, reader events = slice events = reference, the public search_reader, rg --mmap/--no-mmap/stdin (also --null-data with context over files > 64 KiB whose records contain line feeds, against a grep reference); a quarter of the cases stress the terminator (NUL, ';', 0xFF, ... with line feeds inside the records). "
         "ml_fill_never_truncates / ml_fill_reads_everything (Model/MultiLineBuffer.v: fill_multi_line_buffer_from_reader/_from_file — for every "
         "stream, read history with short reads / Interrupted / hard errors, heap limit and earlier buffer the multi-line heap buffer ends up "
         "equal to the whole stream, or the heap-limit error is returned exactly when a limit h is set and the stream has at least h bytes, "
         "or a read error of the history is returned, always with no sink call; fuel suffices), tied by kind 207 (one real Searcher, scripted "
         "readers, heap limits, slice sizes compared). "
         "D10 fixed.",
    note="memory maps are searched as slices (mmap.rs only chooses the strategy; CLI comparison); binary detection off as the "
         "property says; failing reads are C16's theorems; trusted: Coq kernel, extraction, driver, harness, hooks "
         "verif_search_reader_raw/verif_buffer_capacity",
    technique="Coq simulation proof (reader = grep reference = slice, all histories and capacities) + extracted-model/implementation correspondence + cross-strategy oracle",
    design="§7 C02, notes/C02.md")
KNOWN_D8 = "EarlyEndByteCount"


def gen_hist(rng, n_bytes, cap):
    mode = rng.choice(["default", "one", "const", "random", "line"])
    if mode == "default":
        return []
    if mode == "one":
        return [(0, 1)] * (n_bytes + 2)
    if mode == "const":
        k = rng.randint(1, 7)
        return [(0, k)] * (n_bytes + 2)
    return [(0, rng.randint(1, 9)) for _ in range(n_bytes + 2)]


def hist_val(h):
    return vlist([vlist([str(x) for x in e]) for e in h])


def reader_line(case, reply, cap, pol, hist):
    r = "()" if reply is None else vlist([str(reply[0]), str(reply[1])])
    p = "()" if pol is None else vlist([str(pol)])
    return vlist([sg.cfg_val(case["cfg"]), sg.matcher_val(case["needles"], case["confirm"], case["lt_mode"]),
                  vbytes(case["input"]), r, str(cap), p, hist_val(hist)])


def split(out):
    v = parse_val(out)
    if v[0] == 9:
        return None
    evs = v[1]
    fin = evs[-1] if evs and evs[-1][0] == 5 else None
    body = evs[:-1] if fin is not None else evs
    return v[0], body, fin


def run(ctx):
    rng = ctx.rng
    n = ctx.count(4000)
    cases, rlines, slines, meta = [], [], [], []
    reg = [c for c in sg.regress_cases() for _ in range(3)]
    for i in range(n + len(reg)):
        # every fourth generated case: terminator stress (NUL, ';', 0xFF, ... with `\n` / `\r` inside the records, context)
        c = reg[i] if i < len(reg) else (sg.gen_term_case(rng, stop_ok=True) if i % 4 == 3 else sg.gen_case(rng))
        cap = rng.choice([1, 1, 2, 3, 4, 5, 7, 8, 13, 16, 40, 64, 65]) if i % 8 != 3 else rng.randint(1, 8)
        pol = None if rng.random() < 0.8 else rng.choice([0, 1, 2, 4, 8, 30])
        hist = gen_hist(rng, len(c["input"]), cap)
        reply = None
        if rng.random() < 0.25:
            reply = (rng.randint(0, 8), 1)
        cases.append(c)
        meta.append((cap, pol, hist, reply))
        rlines.append(reader_line(c, reply, cap, pol, hist))
        slines.append(sg.case_val(c, reply))
    rc = vlib.code(201, rlines)      # roll buffer fed directly by the scripted reader (hook)
    rm = vlib.model(201, rlines)
    rd = vlib.code(202, rlines)      # the public search_reader (transcoding reader in between)
    sc = vlib.code(301, slines)
    # a Searcher is reused for every file of a walk: the second search must not depend on the first
    tidx = list(range(0, len(rlines), 4))
    tw = vlib.code(203, [rlines[i] for i in tidx])
    for i, t in zip(tidx, tw):
        if t != rd[i]:
            a, b = split(t), split(rd[i])
            early = cases[i]["cfg"]["stop_on_nonmatch"] or meta[i][3] is not None
            if a is not None and b is not None and (a[0], a[1]) == (b[0], b[1]) and early:
                # only the byte count of an early-ended search differs (the reused buffer has another capacity): D8
                ctx.known(KNOWN_D8, "reused searcher: case=%r fresh finish=%r reused finish=%r" % (sg.describe(cases[i]), b[2], a[2]))
            else:
                ctx.violation("the second search_reader of a reused Searcher differs from the search by a fresh Searcher",
                              dict(kind=203, line=rlines[i], case=sg.describe(cases[i]), fresh=rd[i], reused=t))
    stats = dict(alloc_error=0, early_end=0, rolled=0, grew=0, stopped=0)
    for case, (cap, pol, hist, reply), rl, sl, c, m, s, d in zip(cases, meta, rlines, slines, rc, rm, sc, rd):
        # the public entry point sees another fragmentation (the decoder's); only the byte count of an
        # early-ended search may differ from the raw run (known finding D8)
        dd, cc = split(d), split(c)
        if dd is not None and cc is not None and (dd[0], dd[1]) != (cc[0], cc[1]) and not (cc[0] == 1 or dd[0] == 1):
            ctx.violation("search_reader (public) and the raw roll-buffer run deliver different events",
                          dict(kind=202, line=rl, case=sg.describe(case), cap=cap, pol=pol, raw=c, public=d))
        ctx.note_case(rl, len(case["input"]) > cap)
        if len(case["input"]) > cap:
            stats["rolled"] += 1
        if c != m:
            ctx.violation("search_reader: model and code disagree",
                          dict(kind=201, line=rl, case=sg.describe(case), cap=cap, pol=pol, hist=hist[:12], reply=reply,
                               model=m, code=c, slice=s), nfi=True)
        r = split(c)
        sl_ = split(s)
        if r is None or sl_ is None:
            continue
        rst, rbody, rfin = r
        sst, sbody, sfin = sl_
        if rst == 1 and rfin is None:
            # allocation error (heap limit too small): events must be a prefix of the slice run's
            stats["alloc_error"] += 1
            if rbody != sbody[:len(rbody)]:
                ctx.violation("reader with insufficient heap limit delivered events that are not a prefix of the slice run",
                              dict(kind=201, line=rl, case=sg.describe(case), cap=cap, pol=pol, code=c, slice=s))
            continue
        if reply is not None:
            stats["stopped"] += 1
        if rbody != sbody or rst != sst:
            ctx.violation("search_reader and search_slice deliver different results for the same input",
                          dict(kind=201, line=rl, case=sg.describe(case), cap=cap, pol=pol, hist=hist[:12], reply=reply,
                               code=c, slice=s))
        elif rfin is not None and sfin is not None and rfin != sfin:
            stop_effective = reply is not None and reply[0] <= len(sbody)
            # with stop-on-nonmatch the rule may have fired on the last line (count = length, yet an early end)
            complete = sfin[1] == len(case["input"]) and not stop_effective and not case["cfg"]["stop_on_nonmatch"]
            if complete:
                ctx.violation("search_reader and search_slice report different byte counts for a completed search",
                              dict(kind=201, line=rl, case=sg.describe(case), cap=cap, pol=pol, code=c, slice=s))
            else:
                stats["early_end"] += 1
                ctx.known(KNOWN_D8, "case=%r reader finish=%r slice finish=%r" % (sg.describe(case), rfin, sfin))
    ctx.sample(dict(case=sg.describe(cases[0]), cap=meta[0][0], hist=meta[0][2][:8], reader=rc[0], slice=sc[0]))
    ctx.cov["stats"] = stats
    terms = {}
    for case, mt in zip(cases, meta):
        k = sg.term_name(case["cfg"]) + ("/rolled" if len(case["input"]) > mt[0] else "")
        terms[k] = terms.get(k, 0) + 1
    ctx.cov["features"] = terms
    ctx.cov["rule"] = ("searcher case x buffer capacity 1..65 x growth policy (eager / Error(extra)) x read history "
                       "(default, 1-byte, constant, random) x optional sink stop; non-trivial = input longer than the "
                       "buffer capacity (forces rolling/growth)")
    sequences(ctx)
    mlbuf(ctx)
    cli(ctx)

def gen_ml_hist(rng, n_bytes):
    """read history for the multi-line fill: short reads, Interrupted, at most one hard error"""
    mode = rng.choice(["default", "default", "one", "const", "random", "random"])
    if mode == "default":
        h = []
    elif mode == "one":
        h = [(0, 1)] * rng.randint(0, n_bytes + 2)
    elif mode == "const":
        k = rng.randint(1, 7)
        h = [(0, k)] * rng.randint(0, n_bytes + 2)
    else:
        h = [(0, rng.choice([0, 1, 1, 2, 3, 4, 9, 40])) for _ in range(rng.randint(0, n_bytes + 3))]
    if rng.random() < 0.5:
        for _ in range(rng.randint(1, 4)):
            h.insert(rng.randint(0, len(h)), (2,))
    if rng.random() < 0.25:
        h.insert(rng.randint(0, len(h)), (1,))
    return h


def ml_line(base, heap, mmap, srcs, rooms=None):
    sv = []
    for j, (t, b, h, rep) in enumerate(srcs):
        r = "()" if rep is None else vlist([str(rep[0]), str(rep[1])])
        rm = "()" if rooms is None or not rooms[j] else vlist([str(x) for x in rooms[j]])
        sv.append(vlist([str(t), vbytes(b), hist_val(h), r, rm]))
    return vlist([sg.cfg_val(base["cfg"]), sg.matcher_val(base["needles"], base["confirm"], base["lt_mode"]),
                  "()" if heap is None else vlist([str(heap)]), "1" if mmap else "0", vlist(sv)])


ML_FIXED = [
    # (heap, mmap, [(tag, input, hist, reply)]): boundary cases first (a stream of exactly heap_limit bytes is
    # rejected, one byte less is searched; limit 0 with memory maps enabled; errors in the 3-byte prefetch)
    (4, False, [(1, b"abc\n", [], None), (1, b"ab\n", [], None), (3, b"abc\n", [], None), (3, b"ab\n", [], None), (1, b"abc\nd\n", [(0, 1)] * 9, None)]),
    (0, True, [(1, b"abc\n", [], None), (1, b"", [], None)]),
    (0, False, [(1, b"abc\n", [], None), (3, b"", [], None)]),
    (None, False, [(1, b"ab\nab\nab\n", [(2,), (0, 1), (2,), (2,), (0, 5), (1,)], None), (1, b"ab\nab\n", [(0, 2), (2,), (0, 1), (2,)], None),
                   (3, b"ab\n", [], None), (1, b"", [(2,), (2,)], None), (1, b"", [(1,)], None), (1, b"a", [(0, 1), (1,)], None)]),
    (9, False, [(1, b"ab\nab\nab\n", [(0, 2), (2,), (0, 1), (2,), (0, 4), (2,), (1,)], None), (1, b"ab\nab\n", [(0, 2), (2,), (0, 1), (2,)], (1, 2)),
                (1, b"ab\nab\nab\n", [], None), (1, b"ab\nab\na", [(0, 4), (0, 4), (1,)], None), (1, b"ab\nab\na", [(0, 4), (0, 4), (0, 4), (1,)], None)]),
    (1, False, [(1, b"", [], None), (1, b"a", [], None), (3, b"", [], None)]),
    (2, True, [(1, b"a", [(2,)], None), (1, b"ab", [], None), (1, b"abc", [(0, 1)], None)]),
]


def mlbuf(ctx):
    """kind 207: ONE Searcher with multi_line(true) and a heap limit slurps several sources one after the other
    (Searcher::fill_multi_line_buffer_from_reader / _from_file: initial length, growth, heap-limit error, read()==0,
    Interrupted retry, hard errors, the read_to_end shortcut).  Model (Model/MultiLineBuffer.v + the multi-line search)
    = code on status, events, kind of error and the sizes of the slices offered to the reader; and, independently of
    the model: a failure-free reader leads to the heap-limit error exactly when a limit h is set and the source has at
    least h bytes, otherwise to the result of search_slice on the same bytes; an error comes with no sink event."""
    rng = ctx.rng
    n = ctx.count(300)
    nbig = ctx.count(4)
    metas = []
    for heap, mmap, srcs in ML_FIXED:
        b = dict(cfg=sg._cfg(multi_line=True), needles=[(False, b"b\na", True)], confirm=True, lt_mode=0, input=b"ab\nab\n")
        metas.append((b, heap, mmap, srcs))
    for i in range(n):
        base = sg.gen_case(rng, multi_line=True)
        base["cfg"]["multi_line"] = True
        base["lt_mode"] = 0
        inputs = [sg.gen_input(rng, base["cfg"]) if rng.random() < 0.8 else base["input"] for _ in range(rng.randint(2, 4))]
        ln = len(rng.choice(inputs))
        heap = None if rng.random() < 0.3 else rng.choice([0, 1, 2, 3, 4, 5, 8, 16, 40, 100, max(0, ln - 1), ln, ln, ln + 1, ln + 1])
        mmap = rng.random() < 0.3
        srcs = []
        for inp in inputs:
            tag = 1 if mmap else rng.choice([1, 1, 1, 3])
            hist = gen_ml_hist(rng, len(inp)) if tag == 1 else []
            rep = (rng.randint(0, 4), rng.choice([1, 2])) if rng.random() < 0.15 else None
            srcs.append((tag, inp, hist, rep))
        metas.append((base, heap, mmap, srcs))
    for i in range(nbig):
        # sources longer than DEFAULT_BUFFER_CAPACITY (64 KB): the buffer must grow (min(2*len, limit)); the sink
        # stops at `begin` so that only the fill is at work
        base = sg.gen_case(rng, multi_line=True)
        base["cfg"]["multi_line"] = True
        base["lt_mode"] = 0
        ln = 65536 + rng.choice([0, 1, 500, 3000])
        heap = rng.choice([65536, 65537, ln, ln + 1, ln + 1, 70000, 131072, 200000, None])
        if i == 0:
            ln, heap = 66036, 131072          # one growth step: 64 KB -> 128 KB
        elif i == 1:
            ln, heap = 140000, 150000         # two: 64 KB -> 128 KB -> min(256 KB, limit)
        inp = bytes(rng.choice(b"ab\n") for _ in range(64)) * (ln // 64) + b"a" * (ln % 64)
        k = rng.choice([70000, 30000, 65535, 65536])
        hist = rng.choice([[], [(0, k), (2,), (0, k), (0, k), (2,)], [(0, 65535), (0, 1), (0, 1), (2,), (0, 7)]])
        srcs = [(1, inp, hist, (0, 1)), (1, inp[:ln - 70], [], (0, 1)), (1, b"ab\n", [], None)]
        metas.append((base, heap, False, srcs))
    lines1 = [ml_line(b, heap, mmap, srcs) for b, heap, mmap, srcs in metas]
    co = vlib.code(207, lines1)
    lines2, cvs = [], []
    for (b, heap, mmap, srcs), l1, c in zip(metas, lines1, co):
        cv = parse_val(c) if c.startswith("(") else None
        if cv is None or len(cv) != len(srcs) or any(not isinstance(x, list) or len(x) != 4 for x in cv):
            ctx.violation("multi-line buffer harness failure: %s" % c[:100], dict(kind=207, line=l1), nfi=True)
            cvs.append(None)
            lines2.append(l1)
            continue
        cvs.append(cv)
        lines2.append(ml_line(b, heap, mmap, srcs, rooms=[list(x[3]) for x in cv]))
    mo = vlib.model(207, lines2)
    # independent oracle: search_slice on the same bytes
    slines = []
    for b, heap, mmap, srcs in metas:
        for t, inp, h, rep in srcs:
            c = dict(b)
            c["input"] = inp
            slines.append(sg.case_val(c, rep))
    so = vlib.code(301, slines)
    k = 0
    stats = dict(sources=0, filled=0, heap_error=0, read_error=0, config_error=0, interrupted=0, grew=0, boundary=0)
    for (b, heap, mmap, srcs), line, cv, m in zip(metas, lines2, cvs, mo):
        mv = parse_val(m) if m.startswith("(") else None
        if cv is None:
            k += len(srcs)
            continue
        if mv is None or len(mv) != len(srcs):
            ctx.violation("multi-line buffer model failure: %s" % m[:100], dict(kind=207, line=line), nfi=True)
            k += len(srcs)
            continue
        ctx.note_case(line, True)
        for j, (t, inp, h, rep) in enumerate(srcs):
            sv = parse_val(so[k]) if so[k].startswith("(") else None
            k += 1
            st, evs, ek, rooms = cv[j]
            rooms = list(rooms)
            stats["sources"] += 1
            info = dict(kind=207, line=line, case=sg.describe(b), heap=heap, mmap=mmap, source=j, tag=t, input=inp[:200].decode("latin1"),
                        input_len=len(inp), hist=h[:12], reply=rep, code=repr(cv[j])[:600], model=repr(mv[j])[:600])
            if cv[j] != mv[j]:
                ctx.violation("filling the multi-line buffer: model and code disagree on source %d" % j, info, nfi=True)
            failing = any(e[0] == 1 for e in h)
            if heap == 0 and not mmap:
                want = [1]
            elif failing:
                want = [3, 0] + ([2] if heap is not None and heap <= len(inp) else [])
            else:
                want = [2] if heap is not None and heap <= len(inp) else [0]
            if ek not in want:
                ctx.violation("filling the multi-line buffer: outcome kind %d, expected one of %r (0 filled, 1 configuration, 2 heap limit, 3 read error)"
                              % (ek, want), info)
            elif ek != 0:
                if st != 1 or len(evs) != 0:
                    ctx.violation("an error while filling the multi-line buffer was returned after sink calls (or not returned)", info)
            elif sv is None or [st, evs] != [sv[0], sv[1]]:
                info["slice"] = repr(sv)[:600]
                ctx.violation("search of a reader/file through the multi-line heap buffer differs from search_slice of the same bytes "
                              "(truncated or altered buffer)", info)
            if heap is not None and t == 1 and any(r > max(heap, 3) for r in rooms):
                ctx.violation("the multi-line buffer offered the reader a slice larger than the heap limit", info)
            stats["filled" if ek == 0 else "heap_error" if ek == 2 else "read_error" if ek == 3 else "config_error"] += 1
            stats["interrupted"] += any(e[0] == 2 for e in h)
            stats["grew"] += (heap is not None and t == 1 and len(inp) >= 65536 and ek == 0)
            stats["boundary"] += (heap is not None and heap == len(inp))
    ctx.cov["multi_line_buffer"] = stats


def sequences(ctx):
    """kind 206: ONE Searcher searches several sources one after the other (slice, reader, file with and without a
    memory map); model (Model/SearcherGlue.v search_seq) = code, and every result equals what a fresh Searcher
    delivers for that source (theorem search_history_independent) — only the byte count of an early-ended reader
    search may depend on the history (D8: the capacity grown by earlier searches)."""
    rng = ctx.rng
    n = ctx.count(500)
    lines, metas = [], []
    for i in range(n):
        base = sg.gen_case(rng, multi_line=(rng.random() < 0.3))
        if base["cfg"]["multi_line"]:
            # needles of multi-line cases may span the terminator: the matcher must then not advertise that it never
            # matches it (lt_mode 1/2 would select the line strategy with a matcher that breaks its own contract)
            base["lt_mode"] = 0
        cap = rng.choice([1, 2, 3, 5, 8, 16, 64])
        srcs = []
        for _ in range(rng.randint(2, 4)):
            inp = sg.gen_input(rng, base["cfg"]) if rng.random() < 0.8 else base["input"]
            tag = rng.choice([0, 1, 1, 2, 3])
            hist = gen_hist(rng, len(inp), cap) if tag == 1 else []
            srcs.append((tag, inp, hist))
        sv = vlist([vlist([str(t), vbytes(b), hist_val(h), "()"]) for t, b, h in srcs])
        lines.append(vlist([sg.cfg_val(base["cfg"]), sg.matcher_val(base["needles"], base["confirm"], base["lt_mode"]), str(cap), sv]))
        metas.append((base, cap, srcs))
    co = vlib.code(206, lines)
    mo = vlib.model(206, lines)
    # fresh Searcher per source, through the same harness entry point
    fresh_lines = []
    for base, cap, srcs in metas:
        for t, b, h in srcs:
            fresh_lines.append(vlist([sg.cfg_val(base["cfg"]), sg.matcher_val(base["needles"], base["confirm"], base["lt_mode"]), str(cap),
                                      vlist([vlist([str(t), vbytes(b), hist_val(h), "()"])])]))
    fo = vlib.code(206, fresh_lines)
    k = 0
    nseq = 0
    for (base, cap, srcs), line, c, m in zip(metas, lines, co, mo):
        cv = parse_val(c) if c.startswith("(") else None
        mv = parse_val(m) if m.startswith("(") else None
        if cv is None or mv is None:
            ctx.violation("sequence harness/model failure: %s / %s" % (c[:100], m[:100]), dict(kind=206, line=line))
            k += len(srcs)
            continue
        nseq += 1
        ctx.note_case(line, True)
        for j, (t, b, h) in enumerate(srcs):
            fv = parse_val(fo[k])[0] if fo[k].startswith("(") else None
            k += 1
            early = base["cfg"]["stop_on_nonmatch"]

            def same_but_count(x, y):
                return (x is not None and y is not None and x[0] == y[0] and len(x) > 1 and len(y) > 1 and len(x[1]) == len(y[1])
                        and x[1][:-1] == y[1][:-1] and x[1] and x[1][-1][0] == 5 and y[1][-1][0] == 5)
            if cv[j] != mv[j]:
                if early and same_but_count(cv[j], mv[j]) and t in (1, 3):
                    ctx.known(KNOWN_D8, "sequence: source %d of %r: model finish=%r code finish=%r" % (j, sg.describe(base), mv[j][1][-1], cv[j][1][-1]))
                else:
                    ctx.violation("a Searcher searching several sources in a row: model and code disagree on source %d" % j,
                                  dict(kind=206, line=line, case=sg.describe(base), cap=cap, sources=[(t_, b_.decode("latin1"), h_[:8]) for t_, b_, h_ in srcs],
                                       model=repr(mv[j]), code=repr(cv[j])), nfi=(fv == cv[j]))
            if fv != cv[j]:
                if early and same_but_count(cv[j], fv) and t in (1, 3):
                    ctx.known(KNOWN_D8, "sequence: source %d of %r: fresh finish=%r reused finish=%r" % (j, sg.describe(base), fv[1][-1], cv[j][1][-1]))
                else:
                    ctx.violation("the result of a search depends on what the same Searcher searched before (source %d of the sequence)" % j,
                                  dict(kind=206, line=line, case=sg.describe(base), cap=cap, sources=[(t_, b_.decode("latin1"), h_[:8]) for t_, b_, h_ in srcs],
                                       fresh=repr(fv), reused=repr(cv[j])))
    ctx.cov["searcher_sequences"] = nseq


def cli(ctx):
    """rg --mmap vs --no-mmap vs stdin on generated files"""
    import os
    import subprocess
    import tempfile
    rng = ctx.rng
    n = ctx.count(40)
    runs = 0
    with tempfile.TemporaryDirectory(dir=vlib.CACHE) as d:
        for i in range(n):
            lines = [bytes(rng.choice(b"ab x") for _ in range(rng.randint(0, 5))) for _ in range(rng.randint(1, 9))]
            data = b"\n".join(lines) + (b"\n" if rng.random() < 0.8 else b"")
            # a byte-order mark makes every strategy go through the transcoder (mmap and slices via slice_has_bom)
            enc = rng.choice([None, None, "utf-16le", "utf-16be", "utf-8-bom"]) if i % 2 else ["utf-16be", "utf-16le", "utf-8-bom", None][(i // 2) % 4]
            text = data.decode("ascii")
            cjk = enc in ("utf-16le", "utf-16be") and rng.random() < 0.6
            if cjk:
                # decoded UTF-8 longer than the UTF-16 file: the heap-read path must not size its read by the file length
                more = ["\u4e2d\u6587\u5b57\u7b26\u4e32\u6f22\u5b57 " * rng.randint(2, 8) + rng.choice(["a", "ab", "x b"]) for _ in range(rng.randint(20, 50))]
                text = "\n".join(more) + "\n" + text
                data = text.encode("utf-8")
            if enc == "utf-16le":
                data = b"\xff\xfe" + text.encode("utf-16le")
            elif enc == "utf-16be":
                data = b"\xfe\xff" + text.encode("utf-16be")
            elif enc == "utf-8-bom":
                data = b"\xef\xbb\xbf" + data
            f = os.path.join(d, "f%d" % i)
            open(f, "wb").write(data)
            flags = ["-n", "-b"]
            if rng.random() < 0.5:
                flags += ["-A", str(rng.randint(0, 2)), "-B", str(rng.randint(0, 2))]
            if rng.random() < 0.3:
                flags.append("-v")
            if rng.random() < 0.2:
                flags.append("--stop-on-nonmatch")
            if rng.random() < 0.2:
                flags.append("-U")
            if enc is not None and rng.random() < 0.3:
                # no transcoding, no mark stripping: the raw bytes, whatever the strategy; raw UTF-16 is full of NUL
                # bytes, and binary detection is outside this property (C14), so it is switched off with -a
                flags += ["-E", "none", "-a"]
            pat = rng.choice(["a", "b", "ab", "x$", "^a", "a|b"])
            if "-U" in flags or (cjk and rng.random() < 0.7):
                if "-U" not in flags:
                    flags.append("-U")
                pat = rng.choice(["a\\n", "\\n", "b\\n", "a", "\\s+\\n"])     # mostly patterns that select the multi-line strategy
            base = [vlib.RG, "--no-config", "--color", "never", "--no-heading", "-H"] + flags + ["-e", pat]
            outs = []
            for mode in ("--mmap", "--no-mmap"):
                p = subprocess.run(base + [mode, f], stdin=subprocess.DEVNULL, stdout=subprocess.PIPE, stderr=subprocess.PIPE)
                outs.append((p.returncode, p.stdout))
            p = subprocess.run(base + ["-"], stdin=open(f, "rb"), stdout=subprocess.PIPE, stderr=subprocess.PIPE)
            outs.append((p.returncode, p.stdout.replace(b"<stdin>", f.encode())))
            runs += 3
            if not (outs[0] == outs[1] == outs[2]):
                ctx.violation("rg --mmap / --no-mmap / stdin print different results",
                              dict(kind="cli", flags=flags, pattern=pat, encoding=enc, data=repr(data), outs=[repr(o) for o in outs]))
    # an input much larger than the 64 KiB buffers, and a pattern anchored at the start of the haystack (in line mode every
    # line is its own haystack, whatever window of the file a strategy happens to hold)
    big = os.path.join(vlib.CACHE, "c02_big_%d" % os.getpid())
    with open(big, "wb") as fh:
        for k in range(40000):
            fh.write(b"%05d\n" % k if k % 3 else b"x%04d\n" % k)
    try:
        for pat in ("\\A[0-9]+", "\\A[0-9]+$", "[0-9]+\\z"):
            base = [vlib.RG, "--no-config", "--color", "never", "-c", "-I", "-e", pat]
            outs = []
            for mode in ("--mmap", "--no-mmap"):
                p = subprocess.run(base + [mode, big], stdin=subprocess.DEVNULL, stdout=subprocess.PIPE, stderr=subprocess.PIPE)
                outs.append((p.returncode, p.stdout))
            p = subprocess.run(base + ["-"], stdin=open(big, "rb"), stdout=subprocess.PIPE, stderr=subprocess.PIPE)
            outs.append((p.returncode, p.stdout))
            runs += 3
            if not (outs[0] == outs[1] == outs[2]):
                ctx.violation("a 230 KB file searched for a haystack-anchored pattern gives different counts through --mmap / --no-mmap / stdin",
                              dict(kind="cli-big", pattern=pat, outs=[repr(o) for o in outs]))
    finally:
        os.remove(big)
    # files whose stat() size says nothing about their content (procfs): by path (mmap or not) and through stdin
    for pf, pat in (("/proc/version", "Linux"), ("/proc/filesystems", "proc"), ("/proc/self/status", "Name")):
        try:
            content = open(pf, "rb").read()
        except OSError:
            continue
        if not content or os.stat(pf).st_size != 0:
            continue
        base = [vlib.RG, "--no-config", "--color", "never", "--no-heading", "-N", "-I", "-e", pat]
        outs = []
        for mode in ("--mmap", "--no-mmap"):
            p = subprocess.run(base + [mode, pf], stdin=subprocess.DEVNULL, stdout=subprocess.PIPE, stderr=subprocess.PIPE)
            outs.append((p.returncode, p.stdout))
        p = subprocess.run(base + ["-"], input=content, stdout=subprocess.PIPE, stderr=subprocess.PIPE)
        outs.append((p.returncode, p.stdout))
        runs += 3
        if pf != "/proc/self/status" and not (outs[0] == outs[1] == outs[2]):
            ctx.violation("a file whose stat size is 0 but which has content gives different results by path and through stdin",
                          dict(kind="cli-procfs", file=pf, pattern=pat, outs=[repr(o) for o in outs]))
        if pf == "/proc/self/status" and not (outs[0][0] == outs[1][0] == 0):
            ctx.violation("a procfs file with content is not searched when named by path",
                          dict(kind="cli-procfs", file=pf, pattern=pat, outs=[repr(o) for o in outs]))
    ctx.cov["cli_runs"] = runs
    cli_null_data(ctx, "C02")


def grep_records(data, term, selected, after, before, passthru):
    """what grep prints for terminator-separated records (-n -b, context -A/-B, --passthru), written from the grep
    documentation: selected records as `n:offset:record`, the `after` records following and the `before` records
    preceding a selected one (or every record under passthru) as `n-offset-record`, in input order, each once; when
    context was asked for, a `--` record between two printed records that are not adjacent in the input; numbers are
    1-based, offsets 0-based."""
    recs, off = [], 0
    while off < len(data):
        j = data.find(term, off)
        end = len(data) if j < 0 else j + 1
        recs.append((off, data[off:end]))
        off = end
    sel = [selected(r[:-1] if r.endswith(term) else r) for _, r in recs]
    out, last = [], None
    for i, (o, r) in enumerate(recs):
        if sel[i]:
            k = b":"
        elif passthru or any(sel[max(0, i - after):i]) or any(sel[i + 1:i + 1 + before]):
            k = b"-"
        else:
            continue
        if last is not None and i > last + 1 and (after > 0 or before > 0):
            out.append(b"--" + term)
        out.append(b"%d%s%d%s" % (i + 1, k, o, k) + r + (b"" if r.endswith(term) else term))
        last = i
    return b"".join(out)


def cli_null_data(ctx, pid):
    """rg --null-data with context over files larger than the 64 KiB buffers whose NUL-terminated records contain line
    feeds and carriage returns: --mmap (slice strategy), --no-mmap and stdin (incremental reader) must print the same,
    and what they print must be the grep reference over the records"""
    import os
    import subprocess
    rng = ctx.rng
    runs = 0
    words = [b"hay", b"payload", b"x", b"", b"a b", b"rec"]
    for i in range(ctx.count(3)):
        dens = [3, 5, 8, 40][i % 4] if i < 4 else rng.choice([3, 5, 8, 40])
        parts = []
        size = 0
        target = rng.randint(70000, 200000)
        k = 0
        while size < target:
            k += 1
            sub = [rng.choice(words) + b"x" * rng.randint(0, 30) for _ in range(rng.choice([1, 2, 3, 3, 4]))]
            if rng.randrange(dens) == 0:
                sub[rng.randrange(len(sub))] += b" needle"
            rec = rng.choice([b"\n", b"\n", b"\r\n"]).join(sub) + (b"\n" if rng.random() < 0.3 else b"") + b"\0"
            parts.append(rec)
            size += len(rec)
        data = b"".join(parts)
        if rng.random() < 0.3:
            data = data[:-1]                    # last record without terminator
        f = os.path.join(vlib.CACHE, "%s_nul_%d_%d" % (pid.lower(), os.getpid(), i))
        open(f, "wb").write(data)
        try:
            flagsets = [(1, 1, False), (0, 2, False), (2, 0, False)] if i == 0 else []
            while len(flagsets) < 4:
                flagsets.append((rng.randint(0, 3), rng.randint(0, 3), rng.random() < 0.15))
            for a, b, passthru in flagsets:
                invert = rng.random() < 0.3
                if passthru:
                    flags = ["--passthru"]
                elif a == b and a > 0 and rng.random() < 0.5:
                    flags = ["-C", str(a)]
                else:
                    flags = ["-A", str(a), "-B", str(b)]
                if invert:
                    flags.append("-v")
                base = [vlib.RG, "--no-config", "--color", "never", "--no-heading", "-I", "--null-data", "-n", "-b"] + flags + ["-e", "needle"]
                outs = []
                for mode in ("--mmap", "--no-mmap"):
                    p = subprocess.run(base + [mode, f], stdin=subprocess.DEVNULL, stdout=subprocess.PIPE, stderr=subprocess.PIPE)
                    outs.append((p.returncode, p.stdout))
                p = subprocess.run(base + ["-"], stdin=open(f, "rb"), stdout=subprocess.PIPE, stderr=subprocess.PIPE)
                outs.append((p.returncode, p.stdout))
                runs += 3
                exp = grep_records(data, b"\0", lambda r: (b"needle" in r) != invert, 0 if passthru else a, 0 if passthru else b, passthru)
                ctx.note_case("nul%d%r" % (i, flags), True)

                def first_diff(x, y):
                    n = next((j for j in range(min(len(x), len(y))) if x[j] != y[j]), min(len(x), len(y)))
                    lo = max(0, n - 120)
                    return dict(at=n, got=repr(x[lo:n + 120]), expected=repr(y[lo:n + 120]))
                names = ("--mmap", "--no-mmap", "stdin")
                for name, (rc, o) in zip(names, outs):
                    if o != exp or rc != (0 if exp else 1):
                        ctx.violation("rg --null-data %s (%s) over a %d-byte file of NUL-terminated records with embedded line feeds "
                                      "does not print the grep reference" % (" ".join(flags), name, len(data)),
                                      dict(kind="cli-null-data", flags=flags, strategy=name, exit=rc, size=len(data), gen=dict(file=i, seed=ctx.seed),
                                           same_as_mmap=(o == outs[0][1]), diff=first_diff(o, exp)))
        finally:
            os.remove(f)
    ctx.cov["cli_null_data_runs"] = ctx.cov.get("cli_null_data_runs", 0) + runs


def replay(ctx, data):
    r = data["replay"]
    if r.get("kind") == 201:
        c = vlib.code(201, [r["line"]])[0]
        m = vlib.model(201, [r["line"]])[0]
        print("code :", c, "\nmodel:", m, "\nslice:", r.get("slice"))
        if c != m:
            ctx.violation("replayed case: model and code still disagree", r)
    if r.get("kind") == 207:
        # the line carries the slice sizes seen when the case was recorded (they instantiate read_to_end's policy)
        c = vlib.code(207, [r["line"]])[0]
        m = vlib.model(207, [r["line"]])[0]
        print("code :", c, "\nmodel:", m)
        if c != m:
            ctx.violation("replayed case: model and code still disagree", r)




# ----------------------------------------------------------------------------------------------- source tie (DESIGN §4.2)
# the definitions of Gen/DecisionsLib.v this property's Props file ties to the model (`*_generated_eq_model`): when
# tools/gen/decisions_lib.py could not translate the current source text the tie is broken and reported
GEN_LIB_TARGETS = ['max_context', 'multi_line_with_matcher', 'slice_needs_transcoding']
_run_checks = run


def run(ctx):
    _run_checks(ctx)
    vlib.report_gen_drift(ctx, "decisions_lib", GEN_LIB_TARGETS, bool(ctx.violations))
