"""cli_common.py — helpers shared by the command-line level checks C15, C18, C08 (not a property module)."""
import json
import os
import shutil
import signal
import subprocess
import tempfile
import time
from concurrent.futures import ThreadPoolExecutor

import vlib

NOBODY = [shutil.which("setpriv") or "setpriv", "--reuid=65534", "--regid=65534", "--clear-groups"]
POOL = 8


def have_setpriv():
    return shutil.which("setpriv") is not None


def mktree(tag):
    base = os.path.join(vlib.CACHE, "tmp_" + tag)
    os.makedirs(base, exist_ok=True)
    os.chmod(base, 0o755)
    d = tempfile.mkdtemp(dir=base)
    os.chmod(d, 0o755)
    return d


def rmtree(d):
    for root, dirs, files in os.walk(d):
        for x in dirs:
            try:
                os.chmod(os.path.join(root, x), 0o755)
            except OSError:
                pass
    shutil.rmtree(d, ignore_errors=True)


def run_rg(args, cwd, close_after=None, timeout=300, nobody=True, env=None, preclosed=False):
    """runs rg (in its own process group; on a timeout the whole group is killed); returns dict(status, out, err, secs,
    timeout).  close_after=k: read exactly k bytes of stdout (or to EOF), then close the read end.
    preclosed: stdout is a pipe whose read end is closed before rg is started."""
    cmd = (NOBODY if nobody else []) + [vlib.RG, "--no-config"] + list(args)
    e = dict(os.environ)
    e.pop("RIPGREP_CONFIG_PATH", None)
    if env:
        e.update(env)
    t0 = time.time()
    timed_out = False

    def kill_group(p):
        try:
            os.killpg(p.pid, signal.SIGKILL)
        except OSError:
            pass
        p.kill()
    if preclosed:
        rfd, wfd = os.pipe()
        os.close(rfd)
        p = subprocess.Popen(cmd, cwd=cwd, stdin=subprocess.DEVNULL, stdout=wfd, stderr=subprocess.PIPE, env=e,
                             start_new_session=True)
        os.close(wfd)
        try:
            _, err = p.communicate(timeout=timeout)
        except subprocess.TimeoutExpired:
            kill_group(p)
            _, err = p.communicate()
            timed_out = True
        return dict(status=p.returncode, out=b"", err=err, secs=time.time() - t0, timeout=timed_out)
    p = subprocess.Popen(cmd, cwd=cwd, stdin=subprocess.DEVNULL, stdout=subprocess.PIPE, stderr=subprocess.PIPE, env=e,
                         start_new_session=True)
    if close_after is None:
        try:
            out, err = p.communicate(timeout=timeout)
        except subprocess.TimeoutExpired:
            kill_group(p)
            out, err = p.communicate()
            timed_out = True
    else:
        out = b""
        while len(out) < close_after:
            chunk = p.stdout.read(close_after - len(out))
            if not chunk:
                break
            out += chunk
        p.stdout.close()
        try:
            p.wait(timeout=timeout)        # (the diagnostics of these runs are a few lines: they fit the pipe)
            err = p.stderr.read()
        except subprocess.TimeoutExpired:
            kill_group(p)
            p.wait()
            err = b""
            timed_out = True
        p.stderr.close()
    return dict(status=p.returncode, out=out, err=err, secs=time.time() - t0, timeout=timed_out)


def pmap(fn, items, workers=POOL):
    with ThreadPoolExecutor(max_workers=workers) as ex:
        return list(ex.map(fn, items))


def gen_status():
    return vlib.gen_status("decisions_cli")


def report_drift(ctx, names, found_failure):
    """see vlib.report_gen_drift (the generated CLI decision expressions, Gen/DecisionsCli.v)"""
    vlib.report_gen_drift(ctx, "decisions_cli", names, found_failure, vfile="Gen/DecisionsCli.v")


def vb(b):
    return vlib.vbytes(b)
