"""C19 — replacement output equals the regex library's replace-all of each matching line."""
import os
import subprocess
import tempfile

import vlib
from vlib import vbytes, vlist, vopt, vbool, parse_val

NEED_RG = True
MANIFEST = dict(
    text="Coq theorems (all templates, capture tables, matchers): interpolate = reference-grammar expansion; "
         "Replacer::replace_all = text between successive matches + expansions + tail; nothing dropped on a "
         "terminated line; D2 refuted by witness; standard printer's call of the Replacer = replace-all of the range in the "
         "context of the look-ahead window / whole buffer (< 128 bytes after the range), full statement refuted (panic). Tie to the code: hand-written model run (extracted OCaml) "
         "against the real crates on generated cases, plus the regex crate as oracle on every matching line.",
    note="trusted: Coq kernel, extraction, OCaml driver, Rust harness; regex-automata modelled as a Section "
         "variable (captures tabulated per case); the call site StandardSink::matched -> Replacer (buffer, range, "
         "MAX_LOOK_AHEAD window, multi-line and line search) is modelled (kind 1903) with the whole-buffer regex-crate oracle; "
         "context lines under -v and the JSON/summary printers are covered by CLI oracles only",
    technique="Coq proof over executable model + extracted-model/implementation correspondence + regex-crate oracle",
    design="§7 C19")
KNOWN_D2 = "EmptyMatchAtEndOfUnterminatedLastLine"
KNOWN_WINDOW = "ReplacementWindowMatchEndsPastRange"

# ---- kind 1903: the call site of the Replacer (StandardSink::matched), multi-line and line searches.
# Patterns whose matches depend on text before/after the matched lines: look-ahead across the end of the
# range (\n\b, \n^, $ after \n), look-behind at its start, adjacent matches forming one block.
GLUE_PATTERNS = [
    r"(\w+)\n\b", r"(\w+)\n", r"(\w+)\n\B", r"(?P<x>a+)\n(?m:^)b?", r"(\w)\n(?m:$)", r"b\n\b|(a)", r"(\w+)$", r"\b(\w)(\w*)",
    r"(?m:^)(\w+)\n\b", r"(a)\n\b(?P<y>b)?", r"([a-c]+)\s\b", r"(\S+)\s+\b", r"(?P<word>\w+)\n\n", r"(\w+)\n(?m:^)\B",
    r"x\n\b|(y)\n", r"(-)?\n\b", r"\n\b", r"(\w+)", r"(a)|(b)\n\b", r"(?s:(a.))\b", r"(\w+)\r?\n\b", r"c\b|(a)\n\b",
    r"(a\n)?", r"\n?", r"(\w*)\n?", r"(?:(a)\n\b)?", r"(a)\n|\b", r"(\w)\n|(?m:^)",
]
GLUE_ALPH = b"ab xyc-1\n\n"


def gen_glue_input(rng, crlf):
    lines = []
    for _ in range(rng.randint(1, 6)):
        k = rng.random()
        if k < 0.45:
            ln = bytes(rng.choice(b"abcxy") for _ in range(rng.randint(1, 4)))      # a word: matches chain into blocks
        elif k < 0.6:
            ln = b""
        else:
            ln = bytes(rng.choice(ALPH) for _ in range(rng.randint(0, 7)))
        lines.append(ln)
    term = b"\r\n" if crlf else b"\n"
    s = b""
    for i, ln in enumerate(lines):
        s += ln
        if i + 1 < len(lines) or rng.random() < 0.7:
            s += term
    if rng.random() < 0.12:
        # a long tail: more than MAX_LOOK_AHEAD bytes after the early lines, so that the window is cut
        s += bytes(rng.choice(b"ab x-") for _ in range(rng.randint(120, 140))) + term + rng.choice([b"", b"ab" + term, b"x"])
    return s


def gen_glue_case(rng):
    pat = rng.choice(GLUE_PATTERNS)
    if rng.random() < 0.2:
        pat = rng.choice(GLUE_PATTERNS) + "|" + pat
    t = gen_template(rng, False)
    if rng.random() < 0.5:
        t = rng.choice([b"<$1>", b"[$0]", b"${1}.", b"$1$1", b"X"])
    multiline = rng.random() < 0.8
    crlf = (not multiline) and rng.random() < 0.3       # CRLF terminators are exercised with the line search only
    return dict(pattern=pat, template=t, input=gen_glue_input(rng, crlf), crlf=crlf, only=rng.random() < 0.3,
                multiline=multiline, malformed=False)


def glue_line(c):
    return vlist([vbytes(c["pattern"]), vbytes(c["template"]), vbytes(c["input"]), vbool(c["crlf"]), vbool(c["only"]),
                  vbool(c["multiline"])])


def run_cli_glue(c):
    with tempfile.TemporaryDirectory(dir=vlib.CACHE) as d:
        f = os.path.join(d, "in")
        open(f, "wb").write(c["input"])
        cmd = [vlib.RG, "--no-config", "--color", "never", "-N", "--no-filename", "--no-mmap", "-a"]
        if c["multiline"]:
            cmd.append("-U")
        if c["crlf"]:
            cmd.append("--crlf")
        if c["only"]:
            cmd.append("-o")
        cmd += ["-r", c["template"], "-e", c["pattern"], f]
        p = subprocess.run(cmd, stdin=subprocess.DEVNULL, stdout=subprocess.PIPE, stderr=subprocess.PIPE)
        if p.returncode == 2 and b"panicked" not in p.stderr:
            return None
        if b"panicked" in p.stderr:
            return b"PANIC"
        return p.stdout


def check_glue_cases(ctx, cases, cli_every=0):
    """model (Model/ReplaceGlue.v: which buffer / range / window the standard printer hands to the Replacer) = real
    printer; oracle: regex crate on the whole buffer, matches restricted to the range."""
    lines = [glue_line(c) for c in cases]
    outs = vlib.code(1903, lines)
    model_in, idx, parsed = [], [], []
    for i, o in enumerate(outs):
        if o in ("PANIC", "MISSING") or o.startswith("PARSEFAIL"):
            ctx.violation("harness %s on replacement call-site case" % o, dict(kind=1903, case=cases[i], line=lines[i]))
            parsed.append(None)
            continue
        v = parse_val(o)
        parsed.append(v)
        if v[0] in (0, 3):
            model_in.append(unparse(v[2]))
            idx.append(i)
        elif v[0] == 2:
            ctx.violation("search error on replacement call-site case", dict(kind=1903, case=cases[i], line=lines[i]))
    mouts = vlib.model(1903, model_in)
    for j, i in enumerate(idx):
        c, v = cases[i], parsed[i]
        panicked = v[0] == 3
        code_out = v[1] if isinstance(v[1], bytes) else b""
        m = parse_val(mouts[j]) if not mouts[j].startswith(("MISSING", "STACK", "PARSEFAIL")) else None
        if m is None:
            ctx.violation("model driver failed on replacement call-site case", dict(kind=1903, case=c, line=lines[i], model=mouts[j]))
            continue
        m_panic = m[0] == 1
        m_out = m[1] if isinstance(m[1], bytes) else b""
        agree, d2, expected, window = v[3][0], v[3][1], (v[3][2] if isinstance(v[3][2], bytes) else b""), v[3][3]
        events = v[2][5]
        is_ml = bool(v[2][4])
        nontrivial = len(events) > 0 and is_ml
        ctx.note_case(lines[i], nontrivial)
        ctx.cov["glue_cases"] = ctx.cov.get("glue_cases", 0) + 1
        if is_ml and any(len(e[0]) > e[2] for e in events):
            ctx.cov["glue_events_with_text_after_range"] = ctx.cov.get("glue_events_with_text_after_range", 0) + 1
        if is_ml and any(len(e[0]) > e[3] for e in events):
            ctx.cov["glue_events_with_cut_window"] = ctx.cov.get("glue_events_with_cut_window", 0) + 1
        if nontrivial and ctx.cov.get("glue_samples", 0) < 6 and b"$" in c["template"]:
            ctx.cov["glue_samples"] = ctx.cov.get("glue_samples", 0) + 1
            ctx.sample(dict(pattern=c["pattern"], template=c["template"].decode("latin1"), input=c["input"].decode("latin1"),
                            multiline=c["multiline"], only=c["only"], output=code_out.decode("latin1")))
        if (m_panic, b"" if m_panic else m_out) != (panicked, b"" if panicked else code_out):
            ctx.violation("standard printer under -r: model of the Replacer call site (buffer, range, look-ahead window) and "
                          "the real printer disagree (theorems standard_replacement_eq_spec_* no longer describe the code)",
                          dict(kind=1903, case=c, line=lines[i], model=("PANIC" if m_panic else repr(m_out)),
                               code=("PANIC" if panicked else repr(code_out)), oracle=repr(expected)))
        if panicked or not agree:
            if window:
                ctx.known(KNOWN_WINDOW, "pattern=%r template=%r input=%r" % (c["pattern"], c["template"], c["input"]))
            elif d2 and not panicked:
                ctx.known(KNOWN_D2, "pattern=%r template=%r input=%r -U" % (c["pattern"], c["template"], c["input"]))
            else:
                ctx.violation("rg -r%s: printed text differs from the regex crate's replace-all of the matched range in the "
                              "context of the whole buffer" % (" -U" if c["multiline"] else ""),
                              dict(kind=1903, case=c, line=lines[i], code=("PANIC" if panicked else repr(code_out)),
                                   oracle=repr(expected)))
        if cli_every and i % cli_every == 0 and b"\x00" not in c["template"] and b"\x00" not in c["input"]:
            cli = run_cli_glue(c)
            ctx.cov["cli_glue_runs"] = ctx.cov.get("cli_glue_runs", 0) + 1
            lib = b"PANIC" if panicked else code_out
            if cli is not None and cli != lib:
                ctx.violation("rg -U -r output differs from the library printer on the same case",
                              dict(kind="cli-glue", case=c, cli=repr(cli), library=repr(lib), oracle=repr(expected)))


def glue_corpus():
    res = []
    for pat, t, inp, only, ml in [
        (r"(\w+)\n\b", b"[$1]", b"alpha\nbeta\n\ngamma\n- delta\n", False, True),
        (r"(\w+)\n\b", b"[$1]", b"alpha\nbeta\n\ngamma\n- delta\n", True, True),
        (r"(\w+)\n\b", b"<$1>", b"one\ntwo\nthree\n\n", False, True),
        (r"(\w+)\n", b"<$1>", b"alpha\nbeta\n\ngamma\n- delta\n", False, True),
        (r"(\w)\n(?m:$)", b"$1!", b"a\n\nb\nc\n", False, True),
        (r"(a)\n(?m:^)b", b"${1}_", b"a\nb\na\nc\n", True, True),
        (r"\b(\w+)", b"<$1>", b"ab cd\nef\n", False, False),
        (r"(\w+)\n\b", b"[$1]", b"ab\n" + b"x" * 127 + b"\n", False, True),
        (r"(\w+)\n\b", b"[$1]", b"ab\n" + b"x" * 128 + b"\n" + b"y\n", False, True),
    ]:
        res.append(dict(pattern=pat, template=t, input=inp, crlf=False, only=only, multiline=ml, malformed=False))
    return res


def window_replay(ctx):
    """the listed known finding ReplacementWindowMatchEndsPastRange (theorem standard_replacement_eq_spec_refuted), on the real code"""
    c = dict(pattern=r"b\n(?s:.{128})\z|a", template=b"X", input=b"ab\n" + b"x" * 128 + b"yyy\n", crlf=False, only=False,
             multiline=True, malformed=False)
    check_glue_cases(ctx, [c], cli_every=1)


NAMES = [b"x", b"y", b"word", b"n1", b"_a"]
PATTERNS = [
    r"(a)(b)?", r"(?P<x>a+)|(?P<y>b)", r"(a|)(b*)", r"\b(\w)(\w*)", r"()", r"$", r"^", r"x*", r"(?P<word>\w+)",
    r"(a)|(b)|(c)", r"((a)b)+", r"(?P<n1>[0-9]+)-(?P<_a>[a-z]*)", r"a(?P<x>)b", r"(\s*)(\S+)", r"b$", r"^(a)?",
    r"(?:a|(b))c", r"(a*)(a*)", r"\B", r"(x?)(y?)$", r"c|$", r"(?P<y>.)\b",
]
ALPH = b"ab xyc-1"


def gen_template(rng, malformed):
    parts = []
    for _ in range(rng.randint(0, 5)):
        k = rng.randint(0, 9)
        if k <= 2:
            parts.append(bytes(rng.choice(b"ab <>-._{}") for _ in range(rng.randint(1, 3))))
        elif k == 3:
            parts.append(b"$$")
        elif k == 4:
            parts.append(b"$" + str(rng.choice([0, 1, 2, 3, 9, 10, 4294967295, 4294967296, 99999999999])).encode())
        elif k == 5:
            parts.append(b"${" + str(rng.randint(0, 3)).encode() + b"}")
        elif k == 6:
            parts.append(b"$" + rng.choice(NAMES + [b"zz", b"1a"]))
        elif k == 7:
            parts.append(b"${" + rng.choice(NAMES + [b"zz", b"1a"]) + b"}")
        elif malformed:
            parts.append(rng.choice([b"$", b"${", b"${}", b"${a b}", b"$-", b"${x", b"$ ", b"${1", b"$\xff", b"${\xc3\xa9}",
                                     b"$}", b"${x$y}"]))
        else:
            parts.append(b"$1")
    t = b"".join(parts)
    if not malformed:
        # reference grammar only: every '$' starts "$$", "$name" or "${name}"
        pass
    return t


def gen_interp_case(rng):
    t = gen_template(rng, rng.random() < 0.5)
    ncap = rng.randint(0, 4)
    caps = []
    for _ in range(ncap):
        if rng.random() < 0.25:
            caps.append(None)
        else:
            caps.append(bytes(rng.choice(b"abXY$ ") for _ in range(rng.randint(0, 3))))
    names = []
    for nm in rng.sample(NAMES, rng.randint(0, 3)):
        names.append((nm, rng.randint(0, 5)))
    return vlist([vbytes(t), vlist([vopt(None if c is None else vbytes(c)) for c in caps]),
                  vlist([vlist([vbytes(n), str(i)]) for n, i in names])]), t


def gen_input(rng, crlf):
    lines = []
    for _ in range(rng.randint(1, 5)):
        ln = bytes(rng.choice(ALPH) for _ in range(rng.randint(0, 8)))
        lines.append(ln)
    term = b"\r\n" if crlf else b"\n"
    s = b""
    for i, ln in enumerate(lines):
        s += ln
        if i + 1 < len(lines) or rng.random() < 0.7:
            s += term if rng.random() < 0.9 or not crlf else b"\n"
    return s


def gen_replace_case(rng, malformed):
    pat = rng.choice(PATTERNS)
    if rng.random() < 0.3:
        pat = rng.choice(PATTERNS) + "|" + pat if rng.random() < 0.5 else "(?:" + pat + ")" + rng.choice(["", "?", "+"])
    t = gen_template(rng, malformed)
    crlf = rng.random() < 0.25
    only = rng.random() < 0.3
    inp = gen_input(rng, crlf)
    return dict(pattern=pat, template=t, input=inp, crlf=crlf, only=only, malformed=malformed)


def case_line(c):
    return vlist([vbytes(c["pattern"]), vbytes(c["template"]), vbytes(c["input"]), vbool(c["crlf"]), vbool(c["only"])])


def unparse(v):
    """python value (from parse_val) back to value syntax"""
    if isinstance(v, bytes):
        return vbytes(v)
    if isinstance(v, int):
        return str(v)
    return vlist([unparse(x) for x in v])


def run_cli(c):
    """rg -r on a temp file; returns stdout bytes or None when rg reports an error"""
    with tempfile.TemporaryDirectory(dir=vlib.CACHE) as d:
        f = os.path.join(d, "in")
        open(f, "wb").write(c["input"])
        cmd = [vlib.RG, "--no-config", "--color", "never", "-N", "--no-filename", "--no-mmap"]
        if c["crlf"]:
            cmd.append("--crlf")
        if c["only"]:
            cmd.append("-o")
        cmd += ["-r", c["template"], "-e", c["pattern"], f]
        p = subprocess.run(cmd, stdin=subprocess.DEVNULL, stdout=subprocess.PIPE, stderr=subprocess.PIPE)
        if p.returncode == 2:
            return None
        return p.stdout


def check_replace_cases(ctx, cases, cli_every=0):
    lines = [case_line(c) for c in cases]
    outs = vlib.code(1902, lines)
    model_in = []
    idx = []
    parsed = []
    for i, o in enumerate(outs):
        if o in ("PANIC", "MISSING") or o.startswith("PARSEFAIL"):
            ctx.violation("harness %s on replace case" % o, dict(kind=1902, case=cases[i], line=lines[i]))
            parsed.append(None)
            continue
        v = parse_val(o)
        parsed.append(v)
        if v[0] == 0:
            model_in.append(unparse(v[2]))
            idx.append(i)
    mouts = vlib.model(1902, model_in)
    for j, i in enumerate(idx):
        c = cases[i]
        v = parsed[i]
        code_out = v[1] if isinstance(v[1], bytes) else b""
        m = parse_val(mouts[j]) if not mouts[j].startswith(("MISSING", "STACK", "PARSEFAIL")) else None
        m = m if isinstance(m, bytes) else (b"" if m == [] else None)
        agree, d2, expected = v[3][0], v[3][1], (v[3][2] if isinstance(v[3][2], bytes) else b"")
        nontrivial = len(v[2][4]) > 0 and b"$" in c["template"]
        ctx.note_case(lines[i], nontrivial)
        if nontrivial:
            ctx.sample(dict(pattern=c["pattern"], template=c["template"].decode("latin1"),
                            input=c["input"].decode("latin1"), crlf=c["crlf"], only=c["only"],
                            output=code_out.decode("latin1")))
        # link 2: model vs code
        if m != code_out:
            ctx.violation("replace_all: model and printer disagree (theorem replace_all_eq_spec no longer "
                          "describes the code)", dict(kind=1902, case=c, line=lines[i], model=repr(m), code=repr(code_out),
                                                     oracle=repr(expected)),
                          nfi=(bool(agree) or c["malformed"]))
        # property oracle: regex crate replace_all per matched line (reference grammar only)
        if not c["malformed"] and not agree:
            if d2:
                ctx.known(KNOWN_D2, "pattern=%r template=%r input=%r" % (c["pattern"], c["template"], c["input"]))
            else:
                ctx.violation("rg replacement differs from regex::replace_all on a matching line",
                              dict(kind=1902, case=c, line=lines[i], code=repr(code_out), oracle=repr(expected)))
        if cli_every and i % cli_every == 0 and b"\x00" not in c["template"] and b"\x00" not in c["pattern"].encode():
            cli = run_cli(c)
            ctx.cov["cli_runs"] = ctx.cov.get("cli_runs", 0) + 1
            if cli is not None and cli != code_out:
                ctx.violation("rg -r output differs from the library printer / model on the same case",
                              dict(kind="cli", case=c, cli=repr(cli), library=repr(code_out), oracle=repr(expected)),
                              nfi=(cli == expected or c["malformed"] or bool(d2)))


def check_invert_context(ctx, cases):
    """-v with context: the reported (non-matching) lines are printed unaltered, the context lines are exactly the
    lines that contain matches and must carry the replacement — the same text `rg -r` prints for that line."""
    import re
    runs = 0
    for c in cases:
        if c["only"] or b"\x00" in c["template"] or "\x00" in c["pattern"] or c["malformed"]:
            continue
        with tempfile.TemporaryDirectory(dir=vlib.CACHE) as d:
            f = os.path.join(d, "in")
            open(f, "wb").write(c["input"])
            base = [vlib.RG, "--no-config", "--color", "never", "-n", "--no-filename", "--no-mmap"] + (["--crlf"] if c["crlf"] else [])
            pa = subprocess.run(base + ["-r", c["template"], "-e", c["pattern"], f], stdin=subprocess.DEVNULL,
                                stdout=subprocess.PIPE, stderr=subprocess.PIPE)
            pb = subprocess.run(base + ["-v", "-C", "1", "-r", c["template"], "-e", c["pattern"], f], stdin=subprocess.DEVNULL,
                                stdout=subprocess.PIPE, stderr=subprocess.PIPE)
            runs += 2
            if pa.returncode == 2 or pb.returncode == 2 or b"\n" in c["template"] or b"\r" in c["template"]:
                continue
            term = b"\n"
            replaced = {}
            for x in pa.stdout.split(term):
                mm = re.match(rb"^(\d+):(.*)$", x, re.S)
                if mm:
                    replaced[int(mm.group(1))] = mm.group(2)
            orig = c["input"].split(b"\n")
            bad = None
            for x in pb.stdout.split(term):
                mm = re.match(rb"^(\d+)([-:])(.*)$", x, re.S)
                if not mm:
                    continue
                ln, sep, txt = int(mm.group(1)), mm.group(2), mm.group(3)
                if sep == b"-" and ln in replaced and txt != replaced[ln]:
                    bad = ("context line %d of the inverted search does not carry the replacement" % ln, txt, replaced[ln])
                if sep == b":" and ln <= len(orig) and txt.rstrip(b"\r") != orig[ln - 1].rstrip(b"\r"):
                    bad = ("line %d has no match but was altered" % ln, txt, orig[ln - 1])
            if bad and len(replaced) == len([1 for x in pa.stdout.split(term) if re.match(rb"^\d+:", x)]):
                ctx.violation("rg -v -C1 -r: " + bad[0], dict(kind="cli-invert-context", case=c, got=repr(bad[1]), expected=repr(bad[2]),
                                                               inverted=repr(pb.stdout[:600]), plain=repr(pa.stdout[:600])))
    ctx.cov["cli_invert_context_runs"] = runs


def d2_replay(ctx):
    """the listed known finding, replayed on the real code"""
    c = dict(pattern="$", template=b"X", input=b"abc", crlf=False, only=False, malformed=False)
    check_replace_cases(ctx, [c])


def corpus_cases():
    res = []
    for pat, t, inp, crlf, only in [
        ("(a)(b)?", b"<$1|$2>", b"ab a b\n", False, False),
        ("(?P<x>a+)", b"${x}$x!$$", b"aa-a\nzz\n", False, False),
        ("x*", b"-", b"abc\n", False, False),
        ("x*", b"-", b"abc\n", False, True),
        ("\\b", b"|", b"ab cd\r\n", True, False),
        ("$", b"X", b"abc\r\n", True, False),
        ("^", b"$0>", b"\n\nab\n", False, False),
        ("(a)|b", b"[$1]", b"ab", False, False),
        ("b$", b"${0}${1}$9", b"ab\nb", False, True),
    ]:
        res.append(dict(pattern=pat, template=t, input=inp, crlf=crlf, only=only, malformed=False))
    return res


def run(ctx):
    rng = ctx.rng
    ctx.cov["rule"] = ("interpolate cases: random template (reference grammar + malformed stream), capture texts, name "
                       "table; replace cases: pattern from a fixed pool with random combination, template, 1-5 short "
                       "lines, CRLF/only-matching. non-trivial = at least one matched line and a '$' in the template "
                       "(replace) or a '$' in the template (interpolate); distinct by case text.")
    # --- interpolate: model = spec = code
    n1 = ctx.count(3000)
    cases = [gen_interp_case(rng) for _ in range(n1)]
    lines = [c[0] for c in cases]
    mo = vlib.model(1901, lines)
    co = vlib.code(1901, lines)
    for (line, t), m, c in zip(cases, mo, co):
        ctx.note_case(line, b"$" in t)
        if m != c:
            mv = parse_val(m) if m.startswith("(") else None
            spec_differs = mv is not None and (mv[0] == [] or mv[0][0] != mv[1])
            ctx.violation("interpolate: model/spec and code disagree (theorem interpolate_eq_spec)",
                          dict(kind=1901, line=line, model=m, code=c, model_vs_spec_differs=spec_differs))
    ctx.sample(dict(interpolate_case=lines[0], result=co[0]))
    # --- replace_all: corpus, known finding, generated
    check_replace_cases(ctx, corpus_cases(), cli_every=1)
    d2_replay(ctx)
    n2 = ctx.count(1500)
    gen = [gen_replace_case(rng, rng.random() < 0.25) for _ in range(n2)]
    check_replace_cases(ctx, gen, cli_every=max(1, n2 // 150))
    check_invert_context(ctx, corpus_cases() + gen[::max(1, n2 // 120)])
    # --- the call site of the Replacer in the standard printer (buffer / range / look-ahead window), kind 1903
    check_glue_cases(ctx, glue_corpus(), cli_every=1)
    window_replay(ctx)
    n3 = ctx.count(1500)
    ggen = [gen_glue_case(rng) for _ in range(n3)]
    check_glue_cases(ctx, ggen, cli_every=max(1, n3 // 120))
    ctx.assumptions += [
        "the matcher (regex-automata behind grep-regex) is a Section variable in the theorems; its captures are "
        "tabulated per case for the model and compared with the regex crate 1.10.6 by the oracle",
        "template grammar for the oracle stream is the reference grammar ($$, $name, ${name}); malformed templates are "
        "compared with the model only (the repository's tests interp11-13 pin them as literal text)",
    ]


def replay(ctx, data):
    r = data["replay"]
    if r.get("kind") == 1901:
        m = vlib.model(1901, [r["line"]])
        c = vlib.code(1901, [r["line"]])
        print("model:", m[0], "\ncode: ", c[0])
        if m != c:
            ctx.violation("replayed interpolate case still disagrees", r)
    elif r.get("kind") in (1903, "cli-glue"):
        c = r["case"]
        for k in ("template", "input"):
            if isinstance(c[k], str):
                c[k] = eval(c[k]) if c[k].startswith("b'") or c[k].startswith('b"') else c[k].encode("latin1")
        check_glue_cases(ctx, [c], cli_every=1)
    elif "case" in r:
        c = r["case"]
        for k in ("template", "input"):
            if isinstance(c[k], str):
                c[k] = eval(c[k]) if c[k].startswith("b'") or c[k].startswith('b"') else c[k].encode("latin1")
        check_replace_cases(ctx, [c], cli_every=1)
