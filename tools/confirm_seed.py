#!/usr/bin/env python3
"""confirm_seed.py <seed-out-dir> [<seed-out-dir> ...]
For each seeded defect directory (patch.diff, demo.sh, meta.json made by an independent agent):
  1. in a scratch worktree of /repo HEAD: demo passes (exit 0); apply the patch: builds with and without the cfg
     flag, the test suite passes, the demo fails (exit 1)
  2. apply the patch to /repo itself, run ./check <property> --tier quick, undo the patch
  3. copy patch.diff, demo.sh (+helpers), meta.json (extended with what was run and observed) to /verif/seeded/<id>/
"""
import json
import os
import shutil
import subprocess
import sys
import time

ROOT = os.path.dirname(os.path.dirname(os.path.abspath(__file__)))
SCR = os.environ.get("CONFIRM_SCR", "/tmp/w/confirm")
PHASE = os.environ.get("CONFIRM_PHASE", "AB")   # A: scratch-worktree part only (parallelisable with distinct CONFIRM_SCR); B: /repo + ./check part


def sh(cmd, cwd=None, env=None, timeout=3600):
    e = dict(os.environ)
    e["CARGO_NET_OFFLINE"] = "true"
    if env:
        e.update(env)
    p = subprocess.run(cmd, shell=True, cwd=cwd, env=e, stdout=subprocess.PIPE, stderr=subprocess.STDOUT,
                       timeout=timeout, stdin=subprocess.DEVNULL)
    return p.returncode, p.stdout.decode("utf-8", "replace")


def main():
    os.makedirs(SCR, exist_ok=True)
    wt = os.path.join(SCR, "repo")
    tgt = os.path.join(SCR, "target")
    if not os.path.exists(wt):
        sh("git -C /repo worktree add -q --detach %s HEAD" % wt)
    for d in sys.argv[1:]:
        d = d.rstrip("/")
        sid = os.path.basename(d)
        meta = json.load(open(os.path.join(d, "meta.json")))
        prop = meta.get("property", sid.split("-")[0])[:3]
        res = dict(id=sid, property=prop)
        pa = os.path.join(d, "confirm_A.json")
        if "A" not in PHASE:
            res = json.load(open(pa))
            rc = 0 if res.get("patch_applies") else 1
        if "A" in PHASE:
          sh("git checkout -q --detach $(git -C /repo rev-parse HEAD) && git checkout -- . && git clean -fdq", cwd=wt)
          env = {"CARGO_TARGET_DIR": tgt}
          rc0, out0 = sh("bash %s/demo.sh %s" % (d, wt), env=env)
          res["demo_unpatched_exit"] = rc0
          rc, out = sh("git apply --whitespace=nowarn %s/patch.diff" % d, cwd=wt)
          res["patch_applies"] = (rc == 0)
          if rc != 0:
              res["apply_error"] = out[-500:]
          if rc == 0:
              rcb, outb = sh("cargo build --offline 2>&1 | tail -3", cwd=wt, env=env)
              rcc, outc = sh("cargo build --offline 2>&1 | tail -3", cwd=wt,
                             env={"CARGO_TARGET_DIR": tgt + "-cfg", "RUSTFLAGS": "--cfg ripgrep_verif"})
              res["builds"] = ("Finished" in outb and "Finished" in outc)
              rct, outt = sh("cargo test --workspace --no-fail-fast --offline 2>&1 | grep -E '^test result|FAILED|failed' | grep -v ' 0 failed' | head -20",
                             cwd=wt, env=env)
              res["suite_failures"] = outt.strip()
              rc1, out1 = sh("bash %s/demo.sh %s" % (d, wt), env=env)
              res["demo_patched_exit"] = rc1
              res["demo_patched_output"] = out1[-600:]
              sh("git checkout -- . && git clean -fdq", cwd=wt)
        if "A" in PHASE:
            json.dump(res, open(pa, "w"), indent=1)
        if "B" not in PHASE:
            print(json.dumps(res, indent=1)); sys.stdout.flush()
            continue
        if rc == 0:
            # our check against the patched /repo
            rca, outa = sh("git -C /repo apply --whitespace=nowarn %s/patch.diff" % d)
            if rca == 0:
                t0 = time.time()
                try:
                    rck, outk = sh("./check %s --tier quick" % prop, cwd=ROOT, timeout=1800)
                except subprocess.TimeoutExpired:
                    rck, outk = 124, "TIMEOUT"
                res["check_exit"] = rck
                res["check_wall_s"] = round(time.time() - t0)
                vl = [l for l in outk.split("\n") if l.startswith("VIOLATION") or l.startswith("  (")]
                res["check_violation_lines"] = vl[:6]
                res["detected"] = (rck == 1 and any(l.startswith("VIOLATION") for l in vl))
                res["detected_with_failing_input"] = any(l.startswith("VIOLATION") and "no-failing-input-found" not in l for l in vl)
            sh("git -C /repo checkout -- . && git -C /repo clean -fdq crates tests")
        confirmed = (res.get("demo_unpatched_exit") == 0 and res.get("demo_patched_exit") == 1 and res.get("builds")
                     and res.get("suite_failures") == "")
        res["confirmed"] = bool(confirmed)
        print(json.dumps(res, indent=1))
        sys.stdout.flush()
        if confirmed:
            out = os.path.join(ROOT, "seeded", sid)
            if os.path.exists(out):
                shutil.rmtree(out)
            shutil.copytree(d, out)
            meta["confirmation"] = dict(
                ran=["demo.sh on a clean worktree of /repo HEAD (exit 0)", "git apply patch.diff",
                     "cargo build --offline (with and without --cfg ripgrep_verif)",
                     "cargo test --workspace --no-fail-fast --offline (no failures)", "demo.sh on the patched tree (exit 1)",
                     "patch applied to /repo, ./check %s --tier quick, patch undone" % prop],
                repo_head=sh("git -C /repo rev-parse --short HEAD")[1].strip(),
                check_detected=res.get("detected"), check_detected_with_failing_input=res.get("detected_with_failing_input"),
                check_violation_lines=res.get("check_violation_lines"), check_wall_s=res.get("check_wall_s"))
            meta["breaks_property"] = prop
            json.dump(meta, open(os.path.join(out, "meta.json"), "w"), indent=1)
    # restore builds for the unpatched tree
    if "B" in PHASE:
        sh("./check --setup >/dev/null 2>&1", cwd=ROOT)


if __name__ == "__main__":
    main()
