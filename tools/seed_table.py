#!/usr/bin/env python3
"""seed_table.py — regenerate seeded/README.md (table of the confirmed seeded property-breaking changes and which
check reports each) from seeded/*/meta.json."""
import glob, json, os
ROOT = os.path.dirname(os.path.dirname(os.path.abspath(__file__)))
rows = []
for d in sorted(glob.glob(os.path.join(ROOT, "seeded", "*"))):
    mp = os.path.join(d, "meta.json")
    if not os.path.exists(mp):
        continue
    m = json.load(open(mp))
    c = m.get("confirmation", {})
    sid = os.path.basename(d)
    summ = (m.get("summary") or "").replace("|", "/").replace("\n", " ")
    if len(summ) > 230:
        summ = summ[:227] + "..."
    first = c.get("first_run_detected", c.get("check_detected"))
    det = c.get("check_detected")
    inp = c.get("check_detected_with_failing_input")
    other = c.get("detected_by_other_checks") or m.get("detected_by_other_checks") or ""
    sc = c.get("strengthening_check")
    if det and inp and sc:
        res = "VIOLATION with failing input by ./check %s (this property's own check does not see the change: it lives in %s's domain)" % (sc, sc)
    elif det and inp:
        res = "VIOLATION with failing input"
    elif det:
        res = "VIOLATION no-failing-input-found"
    else:
        res = "missed by %s" % m.get("property")
    if first is False and det:
        res += " (after strengthening: %s)" % (c.get("strengthening", "")[:160].replace("|", "/"))
    if other:
        res += "; also: " + str(other)
    rows.append((sid, m.get("property"), summ, res))
out = ["# Seeded property-breaking changes", "",
       "Each directory holds `patch.diff` (applies to /repo HEAD with `git -C /repo apply`), `demo.sh` (exit 0 on the clean tree, 1 on the",
       "patched tree) and `meta.json` (property, what the change needs to manifest, what was run to confirm it, what `./check` printed).",
       "All were produced by sub-agents that saw only the property text; all compile with and without `--cfg ripgrep_verif` and pass the",
       "unedited test suite. None is ever committed to /repo. Regenerate this table with `python3 tools/seed_table.py`.", "",
       "| id | property | change | result of `./check <property>` on the patched tree |", "|---|---|---|---|"]
for r in rows:
    out.append("| %s | %s | %s | %s |" % r)
open(os.path.join(ROOT, "seeded", "README.md"), "w").write("\n".join(out) + "\n")
print("\n".join(out[8:]))
