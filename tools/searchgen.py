"""searchgen.py — generators of searcher cases (configuration, scripted matcher, input) shared by the
searcher-family checks (C02 C03 C13 C16)."""
from vlib import vbytes, vlist, vbool


def gen_cfg(rng, multi_line=False, passthru_ok=True):
    r = rng.random()
    if r < 0.70:
        crlf, ltb = False, 10
    elif r < 0.85:
        crlf, ltb = True, 10
    elif r < 0.95:
        crlf, ltb = False, 0
    else:
        crlf, ltb = False, 59  # ';'
    ctx = [0, 0, 0, 1, 1, 2, 3]
    return dict(crlf=crlf, ltbyte=ltb, invert=rng.random() < 0.3, after=rng.choice(ctx), before=rng.choice(ctx),
                passthru=passthru_ok and rng.random() < 0.15, line_number=rng.random() < 0.7,
                stop_on_nonmatch=rng.random() < 0.2, multi_line=multi_line)


def cfg_val(c):
    return vlist([vbool(c["crlf"]), str(c["ltbyte"]), vbool(c["invert"]), str(c["after"]), str(c["before"]),
                  vbool(c["passthru"]), vbool(c["line_number"]), vbool(c["stop_on_nonmatch"]), vbool(c["multi_line"])])


def alphabet(c):
    al = [97, 97, 98, 120, 32, 13]
    if c["ltbyte"] != 10:
        al.append(10)          # records that contain line feeds (e.g. --null-data)
    return [b for b in al if b != c["ltbyte"]]


def gen_input(rng, c, max_lines=12, max_len=6):
    al = alphabet(c)
    term = b"\r\n" if c["crlf"] else bytes([c["ltbyte"]])
    n = rng.choice([0, 1, 1, 2, 3, 4, 5, 6, 8, max_lines])
    s = b""
    for i in range(n):
        ln = bytes(rng.choice(al) for _ in range(rng.choice([0, 0, 1, 2, 3, max_len])))
        s += ln
        if i + 1 < n or rng.random() < 0.75:
            s += term if (not c["crlf"] or rng.random() < 0.85) else b"\n"
    return s


def gen_needles(rng, c, multi_line=False):
    """(anchored, bytes, real) list"""
    al = [b for b in alphabet(c) if b != 13]
    if c["crlf"] and rng.random() < 0.3:
        al = al + [13]         # a needle may contain the \r that CRLF mode strips from the line
    ltb = c["ltbyte"]
    ns = []
    for _ in range(rng.choice([1, 1, 2])):
        if rng.random() < 0.05:
            ns.append((False, b"", True))
            continue
        k = rng.choice([1, 1, 2])
        b = bytes(rng.choice(al) for _ in range(k))
        if multi_line and rng.random() < 0.6:
            # needles that touch or span the terminator
            b = rng.choice([b + bytes([ltb]), bytes([ltb]) + b, b + bytes([ltb]) + bytes([rng.choice(al)]), bytes([ltb])])
        ns.append((multi_line and rng.random() < 0.25, b, True))
    for _ in range(rng.choice([0, 0, 1, 2])):
        ns.append((False, bytes(rng.choice(al) for _ in range(rng.choice([1, 2]))), False))
    rng.shuffle(ns)
    return ns


def matcher_val(ns, confirm, lt_mode):
    return vlist([vlist([vlist([vbool(a), vbytes(b), vbool(r)]) for a, b, r in ns]), vbool(confirm), str(lt_mode)])


def gen_case(rng, multi_line=False):
    c = gen_cfg(rng, multi_line=multi_line)
    ns = gen_needles(rng, c, multi_line=multi_line)
    confirm = rng.random() < 0.5
    lt_mode = rng.choice([0, 1, 1, 2]) if not multi_line else rng.choice([0, 0, 0, 1, 2])
    inp = gen_input(rng, c)
    return dict(cfg=c, needles=ns, confirm=confirm, lt_mode=lt_mode, input=inp)


TERM_BYTES = [0, 0, 0, 59, 59, 255, 1, 9, 128, 10, 10]


def gen_term_case(rng, stop_ok=False):
    """terminator stress: the line terminator is drawn from NUL, ';', 0xFF, other bytes and (as control) LF / CRLF;
    the records contain `\n` and `\r` as ordinary bytes whenever these are not the terminator; mostly non-zero
    context sizes, several records, sparse matches -- what a buffer switch of the incremental reader must retain
    is decided by counting TERMINATORS, not line feeds"""
    ltb = rng.choice(TERM_BYTES)
    crlf = ltb == 10 and rng.random() < 0.5
    sizes = [0, 1, 1, 2, 2, 3]
    c = dict(crlf=crlf, ltbyte=ltb, invert=rng.random() < 0.25, after=rng.choice(sizes), before=rng.choice(sizes),
             passthru=rng.random() < 0.1, line_number=rng.random() < 0.7,
             stop_on_nonmatch=stop_ok and rng.random() < 0.1, multi_line=False)
    # a buffer switch goes wrong only when the retained records hold more `\n` than there are context lines:
    # line feeds are frequent in the records (weight drawn per case)
    al = [b for b in [97, 98, 120, 32, 13] + [10] * rng.choice([2, 4, 6, 9]) if b != ltb]
    term = b"\r\n" if crlf else bytes([ltb])
    n = rng.choice([2, 3, 4, 5, 6, 8, 10, 12, 16])
    s = b""
    for i in range(n):
        s += bytes(rng.choice(al) for _ in range(rng.choice([0, 1, 2, 2, 3, 3, 4, 6])))
        if i + 1 < n or rng.random() < 0.75:
            s += term if (not crlf or rng.random() < 0.85) else b"\n"
    # sparse matches: two-byte needles mostly, so that unmatched records precede a match
    nal = [b for b in (97, 98, 120, 32, 10) if b != ltb]
    ns = []
    for _ in range(rng.choice([1, 1, 2])):
        ns.append((False, bytes(rng.choice(nal) for _ in range(rng.choice([1, 2, 2]))), True))
    for _ in range(rng.choice([0, 0, 1])):
        ns.append((False, bytes(rng.choice(nal) for _ in range(rng.choice([1, 2]))), False))
    rng.shuffle(ns)
    return dict(cfg=c, needles=ns, confirm=rng.random() < 0.5, lt_mode=rng.choice([0, 1, 1, 2]), input=s)


def term_name(c):
    """feature label of the line terminator of a configuration"""
    if c["crlf"]:
        return "term=CRLF"
    return {10: "term=LF", 0: "term=NUL"}.get(c["ltbyte"], "term=0x%02x" % c["ltbyte"])


def case_val(case, reply=None):
    r = "()" if reply is None else vlist([str(reply[0]), str(reply[1])])
    return vlist([cfg_val(case["cfg"]), matcher_val(case["needles"], case["confirm"], case["lt_mode"]),
                  vbytes(case["input"]), r])


def describe(case):
    c = case["cfg"]
    return dict(cfg={k: v for k, v in c.items()}, needles=[(a, b.decode("latin1"), r) for a, b, r in case["needles"]],
                confirm=case["confirm"], lt_mode=case["lt_mode"], input=case["input"].decode("latin1"))


def _cfg(**kw):
    c = dict(crlf=False, ltbyte=10, invert=False, after=0, before=0, passthru=False, line_number=True,
             stop_on_nonmatch=False, multi_line=False)
    c.update(kw)
    return c


def regress_cases(multi_line=False):
    """the witnesses of the repaired defects of the searcher family; they run before the generated cases so that a
    repaired defect that returns is reported whatever the seed"""
    if not multi_line:
        out = []
        for lt_mode in (1, 0, 2):
            for confirm in (True, False):
                # D10: inverted fast path stepped over the line that ends a --stop-on-nonmatch search
                out.append(dict(cfg=_cfg(invert=True, stop_on_nonmatch=True), needles=[(False, b"x", True)], confirm=confirm,
                                lt_mode=lt_mode, input=b"a\nx\nb\nx\nc\n"))
                out.append(dict(cfg=_cfg(invert=True, stop_on_nonmatch=True, after=1, before=1), needles=[(False, b"x", True)],
                                confirm=confirm, lt_mode=lt_mode, input=b"a\na\nx\nb\nx\nc\n"))
                # D9 / D1: CRLF mode, a bare-LF line and an empty needle (matches between \r and \n of a raw buffer)
                out.append(dict(cfg=_cfg(crlf=True), needles=[(False, b"", True)], confirm=confirm, lt_mode=lt_mode,
                                input=b"abc\nxyz\r\n"))
                out.append(dict(cfg=_cfg(crlf=True, passthru=True), needles=[(False, b"c", True)], confirm=confirm,
                                lt_mode=lt_mode, input=b"abc\nxyz\r\nc\r\n"))
                out.append(dict(cfg=_cfg(crlf=True), needles=[(False, b"\r", True)], confirm=confirm, lt_mode=lt_mode,
                                input=b"a\r\nbb\r\n"))
                out.append(dict(cfg=_cfg(crlf=True, invert=True), needles=[(False, b"b\r", True)], confirm=confirm,
                                lt_mode=lt_mode, input=b"a\r\nbb\r\nb\n"))
            out.append(dict(cfg=_cfg(crlf=True), needles=[(False, b"c\n", True)], confirm=False, lt_mode=0,
                            input=b"abc\nxyz\r\n"))
        return out
    out = []
    for passthru in (False, True):
        for after in (0, 1):
            # D6: a needle anchored after the terminator (look-behind) must see the byte before the resumption point
            out.append(dict(cfg=_cfg(multi_line=True, passthru=passthru, after=after),
                            needles=[(False, b"a", True), (True, b"b\nc", True)], confirm=False, lt_mode=0, input=b"ab\nc\n"))
            # D7: stop answers during the final flush (last match and the context just before it)
            out.append(dict(cfg=_cfg(multi_line=True, passthru=passthru, after=after, before=1),
                            needles=[(False, b"a\n", True)], confirm=False, lt_mode=0, input=b"x\na\n"))
            out.append(dict(cfg=_cfg(multi_line=True, passthru=passthru, after=after, before=1),
                            needles=[(False, b"a", True)], confirm=False, lt_mode=0, input=b"x\na"))
            out.append(dict(cfg=_cfg(multi_line=True, passthru=passthru, invert=True, after=after),
                            needles=[(False, b"a\n", True)], confirm=False, lt_mode=0, input=b"a\nb\nc\n"))
    return out
