"""vlib.py — shared machinery of the /verif checks.

Every check (./check <ID> --tier quick|thorough) does, in this order:
  1. hygiene: no Admitted/admit/Axiom/... in the Coq development
  2. Coq: regenerate Gen/*.v from /repo, `make` (full .vo), recompile Props/<ID>.v and compare the
     `Print Assumptions` output of every theorem in it with the allow-list
  3. rebuild the extracted model driver if the models changed; rebuild the Rust harness (and rg)
     from /repo's current working tree with --cfg ripgrep_verif
  4. correspondence: model vs code on corpus + generated cases; property oracle vs code
  5. known findings, verdict, evidence file
"""
import fcntl
import hashlib
import json
import os
import random
import re
import subprocess
import sys
import time

ROOT = os.environ.get("VERIF_ROOT") or os.path.dirname(os.path.dirname(os.path.abspath(__file__)))
CACHE = os.path.join(ROOT, ".cache")
COQ = os.path.join(ROOT, "coq")
REPO = os.environ.get("VERIF_REPO") or "/repo"
TARGET = os.path.join(CACHE, "target")
RGH = os.path.join(TARGET, "release", "rgh")
RG = os.path.join(TARGET, "release", "rg")
DRIVER = os.path.join(CACHE, "driver", "driver")
GUARD = "ripgrep_verif"

ALLOWED_AXIOMS = {
    # stdlib axioms that may appear through Program/Equations; each use is named in DESIGN §5
    "functional_extensionality_dep",
}

BAD_WORDS = re.compile(
    r"\b(Admitted|admit|Axiom|Axioms|Parameter|Parameters|Conjecture|Conjectures|Admit Obligations|"
    r"bypass_check|Unset Guard Checking|Unset Positivity Checking|Unset Universe Checking|"
    r"type-in-type|impredicative-set)\b")


def env_base():
    e = dict(os.environ)
    e["CARGO_NET_OFFLINE"] = "true"
    e["RUSTFLAGS"] = "--cfg " + GUARD
    e["CARGO_TARGET_DIR"] = TARGET
    e["VERIF_ROOT"] = ROOT
    e["VERIF_REPO"] = REPO
    e.pop("CARGO_BUILD_TARGET_DIR", None)
    return e


def sh(cmd, timeout=3600, cwd=None, env=None, inp=None):
    p = subprocess.run(cmd, shell=isinstance(cmd, str), cwd=cwd, env=env or env_base(), input=inp,
                       stdout=subprocess.PIPE, stderr=subprocess.STDOUT, timeout=timeout)
    return p.returncode, p.stdout.decode("utf-8", "replace")


class Lock:
    def __init__(self, name):
        os.makedirs(CACHE, exist_ok=True)
        self.path = os.path.join(CACHE, name + ".lock")

    def __enter__(self):
        self.f = open(self.path, "w")
        fcntl.flock(self.f, fcntl.LOCK_EX)
        return self

    def __exit__(self, *a):
        fcntl.flock(self.f, fcntl.LOCK_UN)
        self.f.close()


# ----------------------------------------------------------------------------- hygiene

def strip_comments(src):
    out = []
    depth = 0
    i = 0
    n = len(src)
    while i < n:
        if src.startswith("(*", i):
            depth += 1
            i += 2
        elif src.startswith("*)", i) and depth > 0:
            depth -= 1
            i += 2
        else:
            if depth == 0:
                out.append(src[i])
            elif src[i] == "\n":
                out.append("\n")
            i += 1
    return "".join(out)


def coq_files():
    res = []
    for d, _, fs in os.walk(os.path.join(COQ, "theories")):
        for f in fs:
            if f.endswith(".v"):
                res.append(os.path.join(d, f))
    res.append(os.path.join(COQ, "Extract.v"))
    return sorted(res)


def hygiene():
    """returns list of problems (strings)"""
    problems = []
    for f in coq_files():
        src = strip_comments(open(f).read())
        depth = 0
        for ln, line in enumerate(src.split("\n"), 1):
            m = BAD_WORDS.search(line)
            if m:
                problems.append("%s:%d: forbidden word %s" % (f, ln, m.group(0)))
            if re.match(r"\s*(Section|Module)\s", line) and not re.search(r":=", line):
                depth += 1
            if re.match(r"\s*End\s", line):
                depth -= 1
            if re.match(r"\s*(Variable|Variables|Hypothesis|Hypotheses|Context)\b", line) and depth <= 0:
                problems.append("%s:%d: Variable/Hypothesis outside a section" % (f, ln))
    return problems


# ----------------------------------------------------------------------------- Coq

def tree_hash(paths):
    h = hashlib.sha256()
    for p in sorted(paths):
        h.update(p.encode())
        h.update(open(p, "rb").read())
    return h.hexdigest()


def coq_make(clean=False):
    with Lock("coq"):
        gen_from_repo()
        gen_dispatch_v()
        if clean:
            sh("make clean >/dev/null 2>&1; find theories -name '*.vo' -delete -o -name '*.glob' -delete "
               "-o -name '*.vok' -delete -o -name '*.vos' -delete", cwd=COQ)
        rc, out = sh([os.path.join(ROOT, "tools", "coqbuild.sh")], timeout=3300)
        return rc == 0, out


def gen_from_repo():
    """regenerate coq/theories/Gen/*.v from /repo's working tree (constants, tables, decisions)."""
    gen = os.path.join(ROOT, "tools", "gen_from_repo.py")
    if os.path.exists(gen):
        rc, out = sh([sys.executable, gen])
        if rc != 0:
            print("gen_from_repo failed:\n" + out)
        return rc == 0
    return True


def props_check(pid):
    """compile Props/<pid>.v on its own, collect theorem names and Print Assumptions output.
    returns dict(obligations, discharged, theorems=[(name, assumptions)], problems=[...], log)"""
    f = os.path.join(COQ, "theories", "Props", pid + ".v")
    res = dict(obligations=0, discharged=0, theorems=[], problems=[], log="")
    if not os.path.exists(f):
        res["problems"].append("missing " + f)
        return res
    src = strip_comments(open(f).read())
    names = re.findall(r"^\s*(?:Theorem|Lemma|Corollary)\s+([A-Za-z0-9_']+)", src, re.M)
    res["obligations"] = len(names)
    # the file may contain only statements, `exact`/`apply` one-liners, Check and Print Assumptions
    printed = re.findall(r"Print Assumptions\s+([A-Za-z0-9_']+)", src)
    for n in names:
        if n not in printed:
            res["problems"].append("theorem %s has no Print Assumptions" % n)
    with Lock("coq"):
        rc, out = sh(["coqc", "-Q", "theories", "RG", f], cwd=COQ, timeout=1200)
    res["log"] = out
    if rc != 0:
        res["problems"].append("coqc Props/%s.v failed" % pid)
        return res
    # parse the output of Print Assumptions: either "Closed under the global context" or "Axioms:\n name : type"
    blocks = re.split(r"(?=Closed under the global context|Axioms:)", out)
    verdicts = [b for b in blocks if b.startswith("Closed under") or b.startswith("Axioms:")]
    if len(verdicts) != len(printed):
        res["problems"].append("expected %d Print Assumptions outputs, got %d" % (len(printed), len(verdicts)))
    ok = 0
    for n, b in zip(printed, verdicts):
        if b.startswith("Closed under"):
            res["theorems"].append((n, []))
            ok += 1
        else:
            ax = re.findall(r"^\s*([A-Za-z0-9_'.]+)\s*:", b, re.M)
            bad = [a for a in ax if a.split(".")[-1] not in ALLOWED_AXIOMS]
            res["theorems"].append((n, ax))
            if bad:
                res["problems"].append("theorem %s depends on axioms %s" % (n, bad))
            else:
                ok += 1
    res["discharged"] = min(ok, len(names))
    return res


def coqchk(pid):
    rc, out = sh(["coqchk", "-silent", "-o", "-Q", "theories", "RG", "RG.Props." + pid], cwd=COQ, timeout=3000)
    return rc, out


# ----------------------------------------------------------------------------- builds

def build_driver():
    with Lock("driver"):
        stamp = os.path.join(CACHE, "driver", "stamp")
        files = [f for f in coq_files()] + [os.path.join(ROOT, "driver", "driver.ml")]
        h = tree_hash(files)
        if os.path.exists(stamp) and os.path.exists(DRIVER) and open(stamp).read() == h:
            return True, "cached"
        rc, out = sh([os.path.join(ROOT, "tools", "build_driver.sh")], timeout=1800)
        if rc == 0:
            open(stamp, "w").write(h)
        return rc == 0, out


def build_harness(need_rg=True):
    with Lock("cargo"):
        hd = os.path.join(ROOT, "harness")
        gen_harness_files()
        lock = os.path.join(hd, "Cargo.lock")
        src = open(os.path.join(REPO, "Cargo.lock")).read()
        if not os.path.exists(lock):
            open(lock, "w").write(src)
        rc, out = sh("cargo build --release --offline 2>&1 | tail -40", cwd=hd, timeout=3000)
        if rc != 0 or "error" in out and "Finished" not in out:
            return False, out
        if need_rg:
            rc2, out2 = sh("cargo build --release --offline --bin rg 2>&1 | tail -40", cwd=REPO, timeout=3000)
            out += out2
            if rc2 != 0 or "Finished" not in out2:
                return False, out
        return True, out


def write_if_changed(path, text):
    if os.path.exists(path) and open(path).read() == text:
        return
    open(path, "w").write(text)


def gen_harness_files():
    """harness/Cargo.toml from Cargo.toml.in (repo path), harness/src/mods.rs from the c*.rs present"""
    hd = os.path.join(ROOT, "harness")
    t = open(os.path.join(hd, "Cargo.toml.in")).read().replace("@REPO@", REPO)
    write_if_changed(os.path.join(hd, "Cargo.toml"), t)
    os.makedirs(os.path.join(hd, ".cargo"), exist_ok=True)
    write_if_changed(os.path.join(hd, ".cargo", "config.toml"),
                     "[net]\noffline = true\n[build]\ntarget-dir = \"%s\"\n" % TARGET)
    allrs = sorted(f[:-3] for f in os.listdir(os.path.join(hd, "src"))
                   if f.endswith(".rs") and f not in ("main.rs", "mods.rs"))
    mods = [m for m in allrs if re.match(r"c\d\d$", m)]
    body = "// generated by tools/vlib.py gen_harness_files — do not edit\n"
    for m in allrs:
        body += "#[allow(dead_code)]\npub mod %s;\n" % m
    body += "pub fn dispatch(kind: u32, v: &crate::val::Val) -> crate::val::Val {\n"
    for m in mods:
        body += "    if let Some(r) = %s::dispatch(kind, v) { return r; }\n" % m
    body += "    crate::val::Val::L(vec![])\n}\n"
    write_if_changed(os.path.join(hd, "src", "mods.rs"), body)


def gen_dispatch_v():
    """coq/theories/Run/Dispatch.v from the Run/RunC*.v present (each defines entry : N -> val -> option val)"""
    rd = os.path.join(COQ, "theories", "Run")
    mods = sorted(f[:-2] for f in os.listdir(rd) if re.match(r"RunC\d\d\.v$", f))
    body = "(* generated by tools/vlib.py gen_dispatch_v — do not edit *)\n"
    body += "From RG Require Import Base.Bytes Base.Val.\n"
    for m in mods:
        body += "From RG Require Run.%s.\n" % m
    body += "\nDefinition dispatch (k : N) (v : val) : val :=\n"
    for m in mods:
        body += "  match %s.entry k v with Some r => r | None =>\n" % m
    body += "  VL []" + " end" * len(mods) + ".\n"
    write_if_changed(os.path.join(rd, "Dispatch.v"), body)


# ----------------------------------------------------------------------------- running cases

def run_lines(binary, kind, lines, timeout=3000, shards=16):
    """run `binary kind` on the case lines (split over several processes); returns list of output lines"""
    if not lines:
        return []
    n = max(1, min(shards, len(lines) // 50 + 1))
    chunks = [lines[i::n] for i in range(n)]
    procs = []
    for c in chunks:
        p = subprocess.Popen([binary, str(kind)], stdin=subprocess.PIPE, stdout=subprocess.PIPE,
                             stderr=subprocess.DEVNULL, env=env_base())
        procs.append(p)
    outs = []
    import threading
    results = [None] * n

    def feed(i):
        data = ("\n".join(chunks[i]) + "\n").encode()
        try:
            o, _ = procs[i].communicate(data, timeout=timeout)
        except subprocess.TimeoutExpired:
            procs[i].kill()
            o = b""
        results[i] = o.decode("utf-8", "replace").split("\n")
    ths = [threading.Thread(target=feed, args=(i,)) for i in range(n)]
    for t in ths:
        t.start()
    for t in ths:
        t.join()
    out = [None] * len(lines)
    for i in range(n):
        r = results[i]
        for j in range(len(chunks[i])):
            out[i + j * n] = r[j] if j < len(r) and r[j] != "" else "MISSING"
    return out


def model(kind, lines, **kw):
    return run_lines(DRIVER, kind, lines, **kw)


def code(kind, lines, **kw):
    return run_lines(RGH, kind, lines, **kw)


# value syntax helpers (Python side)
def vbytes(b):
    if isinstance(b, str):
        b = b.encode("utf-8", "surrogateescape")
    return "x" + bytes(b).hex() if len(b) else "()"


def vlist(items):
    return "(" + " ".join(items) + ")"


def vopt(x):
    return "()" if x is None else "(" + x + ")"


def vbool(b):
    return "1" if b else "0"


def parse_val(s):
    """parse the value syntax into python: ints and lists (hex lists become bytes)"""
    pos = 0
    n = len(s)

    def val():
        nonlocal pos
        while pos < n and s[pos] in " \t":
            pos += 1
        c = s[pos]
        if c == "(":
            pos += 1
            items = []
            while True:
                while pos < n and s[pos] in " \t":
                    pos += 1
                if s[pos] == ")":
                    pos += 1
                    return items
                items.append(val())
        if c == "x":
            st = pos + 1
            pos = st
            while pos < n and s[pos] not in " ()":
                pos += 1
            return bytes.fromhex(s[st:pos])
        st = pos
        while pos < n and s[pos].isdigit():
            pos += 1
        return int(s[st:pos])
    return val()


# ----------------------------------------------------------------------------- known findings

def known_findings(pid):
    """entries of /verif/known_findings.txt for this property: list of dict(kind, property, cls, text)"""
    p = os.path.join(ROOT, "known_findings.txt")
    res = []
    if not os.path.exists(p):
        return res
    for line in open(p):
        line = line.strip()
        if not line or line.startswith("#"):
            continue
        m = re.match(r"(known|fixed):\s+property=(\S+)\s+(\S+)\s+(.*)", line)
        if m and m.group(2) == pid:
            res.append(dict(kind=m.group(1), property=m.group(2), cls=m.group(3), text=m.group(4)))
    return res


# ----------------------------------------------------------------------------- generated-from-source tie (DESIGN §4.2)

def gen_status(gen="decisions_cli"):
    """status file written by tools/gen/<gen>.py: {target: {translated, message, file, source, source_sha}}"""
    p = os.path.join(CACHE, "gen", gen + ".json")
    try:
        return json.load(open(p))
    except (OSError, ValueError):
        return {}


def report_gen_drift(ctx, gen, names, found_failure, vfile=None):
    """a decision expression the translator could not handle: the theorems are about the hand-written copy, the tie
    from the source text to the Coq definition is broken -> VIOLATION ... no-failing-input-found (unless the search
    of this run already produced a concrete failing input)"""
    st = gen_status(gen)
    bad = [n for n in names if n in st and not st[n]["translated"]]
    missing = [n for n in names if n not in st]
    ctx.cov["generated_from_source"] = sorted(set(ctx.cov.get("generated_from_source", [])) |
                                              set(n for n in names if n in st and st[n]["translated"]))
    ctx.cov["generated_fallback"] = sorted(set(ctx.cov.get("generated_fallback", [])) | set(bad + missing))
    if (bad or missing) and not found_failure:
        vfile = vfile or "Gen/%s.v" % "".join(w.capitalize() for w in gen.split("_"))
        ctx.violation("decision expression(s) no longer translatable from the source text; the theorems now speak about "
                      "the hand-written copy only: " + "; ".join("%s (%s): %s" % (
                          n, st.get(n, {}).get("file", "?"), st.get(n, {}).get("message", "no status"))
                          for n in bad + missing),
                      dict(theorem_or_correspondence="%s <-> source text" % vfile, targets=bad + missing), nfi=True)


# ----------------------------------------------------------------------------- context

class Ctx:
    def __init__(self, pid, tier, seed):
        self.pid = pid
        self.tier = tier
        self.seed = seed
        self.rng = random.Random(seed * 1000003 + int(hashlib.sha256(pid.encode()).hexdigest()[:6], 16))
        self.t0 = time.time()
        self.violations = []          # list of (replay_path, nfi)
        self.cov = dict(evaluations=0, distinct_nontrivial=0, rule="", samples=[])
        self.assumptions = []
        self.notes = []
        self.known_seen = {}          # cls -> example text
        self.level = "proof"
        self._distinct = set()
        self.drift = []               # anchor drift (tools/anchors.py): mirrored Rust items whose text changed

    def quick(self):
        return self.tier == "quick"

    def count(self, n):
        if self.tier == "quick":
            # an edited anchor gets a larger correspondence run than the unchanged tree (DESIGN §4.3); never an alarm
            return n * (int(os.environ.get("VERIF_DRIFT_FACTOR", "3")) if self.drift else 1)
        return n * int(os.environ.get("VERIF_THOROUGH_FACTOR", "20"))

    def note_case(self, key, nontrivial):
        self.cov["evaluations"] += 1
        if nontrivial:
            self._distinct.add(hashlib.sha1(key.encode() if isinstance(key, str) else key).digest()[:8])

    def sample(self, x):
        if len(self.cov["samples"]) < 6:
            self.cov["samples"].append(x)

    def violation(self, what, replay, nfi=False):
        os.makedirs(os.path.join(ROOT, "replays"), exist_ok=True)
        body = json.dumps(dict(property=self.pid, what=what, seed=self.seed, tier=self.tier, replay=replay),
                          indent=1, sort_keys=True, default=repr)
        h = hashlib.sha1(body.encode()).hexdigest()[:10]
        path = os.path.join(ROOT, "replays", "%s-%s.json" % (self.pid, h))
        open(path, "w").write(body)
        self.violations.append((path, nfi, what))
        return path

    def known(self, cls, text):
        self.known_seen.setdefault(cls, text)

    def finish(self, proof):
        """print verdict lines, write evidence, return exit code"""
        self.cov["distinct_nontrivial"] = len(self._distinct)
        kf = known_findings(self.pid)
        listed = {k["cls"]: k for k in kf if k["kind"] == "known"}
        for cls, text in self.known_seen.items():
            if cls in listed:
                print("KNOWN-FINDING: property=%s %s %s" % (self.pid, cls, listed[cls]["text"]))
            else:
                self.violation("unlisted finding class " + cls, dict(cls=cls, example=text))
        cov = dict(self.cov)
        cov.update(obligations=proof["obligations"], discharged=proof["discharged"],
                   checker_cmd="cd /verif/coq && make && coqc -Q theories RG theories/Props/%s.v "
                               "(Print Assumptions per theorem); thorough: coqchk -o" % self.pid,
                   trusted_base=["Coq 8.16.1 kernel (coqc; coqchk in thorough tier)",
                                 "extraction (ExtrOcamlBasic) + OCaml 4.13 + driver/driver.ml",
                                 "Rust harness /verif/harness, python tools/",
                                 "correspondence = differential testing on the generated cases only"],
                   theorems=[dict(name=n, axioms=a) for n, a in proof["theorems"]],
                   proof_problems=proof["problems"], notes=self.notes,
                   known_findings_seen=sorted(self.known_seen), anchor_drift=self.drift[:60])
        if cov["distinct_nontrivial"] < 2 and cov["evaluations"] > 0:
            cov["distinct_nontrivial"] = cov["distinct_nontrivial"]
        ev = dict(property_id=self.pid, tier=self.tier, seed=self.seed, level=self.level, coverage=cov,
                  assumptions=self.assumptions, wall_s=round(time.time() - self.t0, 2),
                  violations=len(self.violations))
        os.makedirs(os.path.join(ROOT, "evidence"), exist_ok=True)
        open(os.path.join(ROOT, "evidence", self.pid + ".json"), "w").write(
            json.dumps(ev, indent=1, sort_keys=True, default=repr) + "\n")
        seen = set()
        for path, nfi, what in self.violations:
            if path in seen:
                continue
            seen.add(path)
            print("VIOLATION property=%s replay=%s%s" % (self.pid, path, " no-failing-input-found" if nfi else ""))
            print("  (" + what[:300] + ")")
        if self.violations:
            return 1
        print("OK property=%s tier=%s evaluations=%d distinct_nontrivial=%d theorems=%d/%d wall=%.1fs" % (
            self.pid, self.tier, cov["evaluations"], cov["distinct_nontrivial"], proof["discharged"],
            proof["obligations"], time.time() - self.t0))
        return 0
