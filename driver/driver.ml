(* driver.ml — generic runner for the extracted models.
   usage: driver KIND < cases > results
   Each input line is one value:  v ::= NUMBER | xHEX | '(' v* ')' ; xHEX is a list of bytes.
   Output: one value per line, same syntax (lists made only of numbers < 256 and non-empty
   are printed as xHEX). *)
open Model

let rec pos_of_int (n : int) : positive =
  if n = 1 then XH
  else if n land 1 = 0 then XO (pos_of_int (n lsr 1))
  else XI (pos_of_int (n lsr 1))
let n_of_int (n : int) : n = if n = 0 then N0 else Npos (pos_of_int n)
let rec int_of_pos (p : positive) : int =
  match p with XH -> 1 | XO q -> 2 * int_of_pos q | XI q -> 2 * int_of_pos q + 1
let int_of_n (x : n) : int = match x with N0 -> 0 | Npos p -> int_of_pos p

let hexval c =
  match c with
  | '0'..'9' -> Char.code c - 48
  | 'a'..'f' -> Char.code c - 87
  | 'A'..'F' -> Char.code c - 55
  | _ -> failwith "bad hex"

let parse (s : string) : val0 =
  let n = String.length s in
  let pos = ref 0 in
  let rec skip () = if !pos < n && (s.[!pos] = ' ' || s.[!pos] = '\t') then (incr pos; skip ()) in
  let rec value () : val0 =
    skip ();
    if !pos >= n then failwith "eof";
    match s.[!pos] with
    | '(' ->
      incr pos;
      let rec items acc =
        skip ();
        if !pos >= n then failwith "unclosed";
        if s.[!pos] = ')' then (incr pos; List.rev acc) else items (value () :: acc)
      in VL (items [])
    | 'x' ->
      incr pos;
      let acc = ref [] in
      while !pos + 1 < n && s.[!pos] <> ' ' && s.[!pos] <> ')' && s.[!pos] <> '(' do
        acc := VN (n_of_int (hexval s.[!pos] * 16 + hexval s.[!pos+1])) :: !acc;
        pos := !pos + 2
      done;
      VL (List.rev !acc)
    | '0'..'9' ->
      let st = !pos in
      while !pos < n && s.[!pos] >= '0' && s.[!pos] <= '9' do incr pos done;
      VN (n_of_int (int_of_string (String.sub s st (!pos - st))))
    | c -> failwith (Printf.sprintf "bad char %c" c)
  in value ()

let rec print (b : Buffer.t) (v : val0) : unit =
  match v with
  | VN x -> Buffer.add_string b (string_of_int (int_of_n x))
  | VL [] -> Buffer.add_string b "()"
  | VL l ->
    let small = List.for_all (fun e -> match e with VN x -> int_of_n x < 256 | VL _ -> false) l in
    if small then begin
      Buffer.add_char b 'x';
      List.iter (fun e -> match e with VN x -> Buffer.add_string b (Printf.sprintf "%02x" (int_of_n x)) | _ -> ()) l
    end else begin
      Buffer.add_char b '(';
      List.iteri (fun i e -> if i > 0 then Buffer.add_char b ' '; print b e) l;
      Buffer.add_char b ')'
    end

let () =
  let kind = n_of_int (int_of_string Sys.argv.(1)) in
  let b = Buffer.create 65536 in
  (try
    while true do
      let line = input_line stdin in
      if String.length line > 0 then begin
        Buffer.clear b;
        (try print b (dispatch kind (parse line))
         with Stack_overflow -> Buffer.add_string b "STACKOVERFLOW"
            | Failure m -> Buffer.add_string b ("PARSEFAIL " ^ m));
        print_string (Buffer.contents b); print_newline ()
      end
    done
  with End_of_file -> ())
